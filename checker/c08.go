package main

import (
	"fmt"
	"go/constant"
	"go/types"
	"os"
	"regexp"
	"regexp/syntax"
	"sort"
	"strings"

	"golang.org/x/tools/go/ssa"
)

// ---- C08: the SemVer family implements SemVer 2.0.0 precedence ------------------------------------
//
// Six sibling implementations of one specification. The rules read each Compare's abstract decision
// table (AE) and compare it with the rows of SemVer 2.0.0 section 11; the classification of an
// identifier as numeric must rest on a digits-only test.

var semverFamily = []string{"cargo", "golang", "hex", "npm", "nuget", "semver"}

func ecoByName(p *Prog, name string) *Eco {
	for _, e := range p.Ecos {
		if e.Name == name {
			return e
		}
	}
	return nil
}

// groupAfter: the capture group of the main pattern whose opening parenthesis follows the literal ch
func (ef *ecoFields) groupAfter(ch string) int {
	if ef.main == nil {
		return 0
	}
	for k := 1; k <= ef.main.NumSub; k++ {
		g := provGroup{ef.main, k}
		if strings.HasSuffix(g.precedingText(), ch) {
			return k
		}
	}
	return 0
}

// fieldsReadFrom: fields of struct type t read in the functions reachable from root
func (p *Prog) fieldsReadFrom(root *ssa.Function, t *types.Named) map[int]string {
	out := map[int]string{}
	for _, fn := range p.RepoReachable(root) {
		for _, b := range fn.Blocks {
			for _, ins := range b.Instrs {
				switch x := ins.(type) {
				case *ssa.FieldAddr:
					if pt, ok := x.X.Type().Underlying().(*types.Pointer); ok && types.Identical(pt.Elem(), t) {
						if _, has := out[x.Field]; !has {
							out[x.Field] = p.Pos(x.Pos())
						}
					}
				case *ssa.Field:
					if types.Identical(x.X.Type(), t) {
						if _, has := out[x.Field]; !has {
							out[x.Field] = p.Pos(x.Pos())
						}
					}
				}
			}
		}
	}
	return out
}

// R-BUILD-IGNORED: the field fed by the capture group after '+' is not read from Compare.
func ruleBuildIgnored(p *Prog, r *Report) {
	for _, name := range semverFamily {
		e := ecoByName(p, name)
		if e == nil {
			r.Und("R-BUILD-IGNORED", name+": build metadata ignored by Compare", "", "ecosystem not found")
			continue
		}
		ef := ecoFieldInfo(p, e)
		key := name + ": build metadata ignored by Compare"
		k := ef.groupAfter("+")
		if k == 0 {
			r.Und("R-BUILD-IGNORED", key, p.FnPos(e.NewVer), "no capture group follows a literal '+' in the version pattern: the build-metadata part could not be located")
			continue
		}
		fi := ef.fieldOfGroup(k)
		if fi < 0 {
			// the group may feed a field together with other groups; look for any field that lists it
			for i, fp := range ef.prov {
				for _, g := range fp.groups {
					if g.ri == ef.main && g.idx == k {
						fi = i
					}
				}
			}
		}
		if fi < 0 {
			r.Ok("R-BUILD-IGNORED", key, p.FnPos(e.NewVer), fmt.Sprintf("capture group %d (after '+') feeds no field of Version", k))
			continue
		}
		read := p.fieldsReadFrom(e.Compare, e.VerT)
		if pos, ok := read[fi]; ok {
			r.Bad("R-BUILD-IGNORED", key, pos, fmt.Sprintf("field %s holds the build metadata (capture group %d, after '+') and is read on a path from Compare", ef.st.Field(fi).Name(), k))
		} else {
			r.Ok("R-BUILD-IGNORED", key, p.FnPos(e.Compare), fmt.Sprintf("field %s (capture group %d, after '+') is read by no function reachable from Compare", ef.st.Field(fi).Name(), k))
		}
	}
	r.Floor("R-BUILD-IGNORED", 6)
}

// semverKeys: AE keys of the leading numeric components and the pre-release field name
func semverKeys(p *Prog, e *Eco) (nums []string, pre string, why string) {
	ef := ecoFieldInfo(p, e)
	if ef.main == nil {
		return nil, "", "no version pattern"
	}
	for _, k := range ef.leadG {
		fi := ef.fieldOfGroup(k)
		if fi < 0 || !isIntType(ef.st.Field(fi).Type()) {
			return nil, "", fmt.Sprintf("numeric group %d is not stored in an int field", k)
		}
		nums = append(nums, "."+ef.st.Field(fi).Name())
	}
	k := ef.groupAfter("-")
	if k == 0 {
		return nums, "", "no capture group follows a literal '-' in the version pattern"
	}
	// the field fed by that group which Compare reads (the text may be kept twice, e.g. once for display)
	read := p.fieldsReadFrom(e.Compare, e.VerT)
	fi := -1
	for i, fp := range ef.prov {
		for _, g := range fp.groups {
			if g.ri == ef.main && g.idx == k {
				if _, ok := read[i]; ok && (fi < 0 || func() bool { _, r := read[fi]; return !r }()) {
					fi = i
				} else if fi < 0 {
					fi = i
				}
			}
		}
	}
	if fi < 0 {
		return nums, "", "the pre-release group feeds no field"
	}
	return nums, "." + ef.st.Field(fi).Name(), ""
}

// R-SEMVER-CHAIN: major, minor, patch (and revision) decide in that order before the pre-release
// is looked at: the first differing component gives the result whatever the later parts are.
func ruleSemverChain(p *Prog, r *Report) {
	for _, name := range semverFamily {
		e := ecoByName(p, name)
		if e == nil {
			continue
		}
		ef := ecoFieldInfo(p, e)
		nums, pre, why := semverKeys(p, e)
		if len(nums) < 3 {
			r.Und("R-SEMVER-CHAIN", name+": numeric components decide first", p.FnPos(e.Compare), "fewer than three numeric components located: "+why)
			continue
		}
		c := newAECtx(p)
		c.stageMode = false
		for i, ki := range nums {
			ov := map[string]override{ki: {rel: relPtr(-1)}}
			for _, kj := range nums[i+1:] {
				ov[kj] = override{free: true}
			}
			if pre != "" {
				ov["~"+pre] = override{free: true}
			}
			// everything that is not a numeric component is free too, except kind flags
			for fi := 0; fi < ef.st.NumFields(); fi++ {
				fk := "." + ef.st.Field(fi).Name()
				if _, has := ov[fk]; has || isBoolType(ef.st.Field(fi).Type()) {
					continue
				}
				isNum := false
				for _, n := range nums {
					if n == fk {
						isNum = true
					}
				}
				if !isNum {
					ov["~"+fk] = override{free: true}
				}
			}
			qr := c.queryPair(e.Compare, c.tiedExcept(ov), nil)
			key := fmt.Sprintf("%s: %s decides before every later part", name, strings.TrimPrefix(ki, "."))
			switch {
			case qr.oof != "":
				r.Und("R-SEMVER-CHAIN", key, p.FnPos(e.Compare), qr.describe())
			case qr.only(-1):
				r.Ok("R-SEMVER-CHAIN", key, p.FnPos(e.Compare), fmt.Sprintf("x%s < y%s with earlier components equal gives -1 in all %d abstract worlds, whatever the later components, pre-release and other fields are", ki, ki, qr.leaves))
			default:
				r.Bad("R-SEMVER-CHAIN", key, p.FnPos(e.Compare), fmt.Sprintf("x%s < y%s with earlier components equal does not always give -1 (a later part is consulted first): %s", ki, ki, qr.describe()))
			}
		}
	}
	r.Floor("R-SEMVER-CHAIN", 18)
}

// ---- identifier-wise comparison ---------------------------------------------------------------------

type idAtoms struct {
	E        string   // the identifier text at the generic position
	pres     string   // presence atom of the zipped sequence
	val      string   // integer value of the identifier
	errAtom  string   // nil-ness of the parse error (classification by conversion)
	digitOK  []string // atoms that hold exactly for all-digit text: Match[^[0-9]+$], or TrimLeft(E, digits) == ""
	trimKeys []string
	other    []string // derived atoms of E that are none of the above
}

func isDigitsOnlyPattern(pat string) bool {
	re, err := syntax.Parse(pat, syntax.Perl)
	if err != nil {
		return false
	}
	re = re.Simplify()
	// ^ digits+ $
	if re.Op != syntax.OpConcat || len(re.Sub) != 3 {
		return false
	}
	if re.Sub[0].Op != syntax.OpBeginText || re.Sub[2].Op != syntax.OpEndText {
		return false
	}
	mid := re.Sub[1]
	if mid.Op != syntax.OpPlus {
		return false
	}
	return alphabetWithin(mid.Sub[0], "0123456789") && mid.Sub[0].Op == syntax.OpCharClass && len(mid.Sub[0].Rune) == 2 && mid.Sub[0].Rune[0] == '0' && mid.Sub[0].Rune[1] == '9'
}

func findIDAtoms(c *aeCtx, fn *ssa.Function, lp *loop) (*idAtoms, string) {
	id := loopID(fn, lp)
	a := &idAtoms{}
	for _, k := range c.termKeys() {
		ti := c.terms[k]
		if ti.kind == akPresence && strings.HasPrefix(k, "present:") {
			if _, ok := c.terms["zip:"+id+"("+strings.TrimPrefix(k, "present:")+")"]; ok {
				a.pres = k
				a.E = strings.TrimPrefix(k, "present:") + "[i]"
			}
		}
	}
	if a.E == "" || c.terms[a.E] == nil {
		return nil, "the identifier term of the zip loop was not found"
	}
	for _, k := range c.termKeys() {
		ti := c.terms[k]
		if len(ti.base) != 1 || ti.base[0] != a.E {
			continue
		}
		switch {
		case (strings.HasPrefix(k, "Atoi(") || strings.HasPrefix(k, "ParseInt(") || strings.HasPrefix(k, "ParseUint(")) && strings.HasSuffix(k, "#0"):
			a.val = k
		case (strings.HasPrefix(k, "Atoi(") || strings.HasPrefix(k, "ParseInt(") || strings.HasPrefix(k, "ParseUint(")) && strings.HasSuffix(k, "#1"):
			a.errAtom = k
		case strings.HasPrefix(k, "Match["):
			pat := k[len("Match["):strings.LastIndex(k, "](")]
			if isDigitsOnlyPattern(pat) {
				a.digitOK = append(a.digitOK, k)
			} else {
				a.other = append(a.other, k)
			}
		case strings.HasPrefix(k, "TrimLeft("+a.E+",") || strings.HasPrefix(k, "Trim("+a.E+",") || strings.HasPrefix(k, "TrimRight("+a.E+","):
			cut := k[strings.LastIndex(k, ",")+1:]
			cut = strings.Trim(cut, "\")")
			set := map[rune]bool{}
			for _, ch := range cut {
				set[ch] = true
			}
			if len(set) == 10 && alphabetOf(cut, "0123456789") {
				a.trimKeys = append(a.trimKeys, k)
			} else {
				a.other = append(a.other, k)
			}
		case strings.HasPrefix(k, "len("):
		default:
			a.other = append(a.other, k)
		}
	}
	sort.Strings(a.other)
	return a, ""
}

func alphabetOf(s, allowed string) bool {
	for _, ch := range s {
		if !strings.ContainsRune(allowed, ch) {
			return false
		}
	}
	return true
}

// class of individual ind at the position: 1 numeric, 2 alphanumeric, 0 not classified, -1 beyond
// the claimed range (all digits but the conversion fails: more than 64 bits)
func (a *idAtoms) class(c *aeCtx, w *world, ind int) int {
	digits := 0 // 1 yes, 2 no
	for _, k := range a.digitOK {
		if v, ok := w.pos[posKey(k, ind)]; ok {
			if v == 1 {
				digits = 1
			} else {
				digits = 2
			}
		}
	}
	for _, k := range a.trimKeys {
		if v, ok := w.pos[posKey(k, ind)]; ok {
			ci := poolIndexStr(c.pools[k], "")
			if ci >= 0 && v == 2*ci+1 {
				if digits == 0 {
					digits = 1
				}
			} else {
				digits = 2
			}
		}
	}
	conv := 0 // 1 converts, 2 fails
	if a.errAtom != "" {
		if v, ok := w.pos[posKey(a.errAtom, ind)]; ok {
			conv = 1 + v
		}
	}
	switch {
	case digits == 2:
		return 2
	case digits == 1 && conv == 2:
		return -1
	case digits == 1:
		return 1
	case conv == 1:
		return 1 // classified by conversion alone (R-NUMID reports this)
	case conv == 2:
		return 2
	}
	return 0
}

func poolIndexStr(pool []constant.Value, s string) int {
	for i, c := range pool {
		if c.Kind() == constant.String && constant.StringVal(c) == s {
			return i
		}
	}
	return -1
}

type idLeaf struct {
	desc           string
	cx, cy         int
	px, py         int // presence: -1 unknown, 0, 1
	relE, relV     *int
	got            int64 // -1, 0 (continue), 1
	gotWhy         string
	convOnly       [2]bool // classified numeric by conversion without a digits-only test
	emptyX, emptyY bool
	posE           [2]int // pool-line position of the element on each side
	hasPosE        [2]bool
}

// zipWorlds enumerates the abstract worlds of one generic position of the (single) summarised zip loop
// reached from root; each is called with the world and the position's outcome. The presence of both
// sides at the position is always decided in a world.
type zipLeaf struct {
	w *world
	o *iterOutcome
}

func zipWorlds(c *aeCtx, root *ssa.Function) (leaves []zipLeaf, fn *ssa.Function, seq string, oof string) {
	c.queryPair(root, nil, nil)
	var lp *loop
	var ids []string
	for f := range c.p.AllFns {
		if !c.p.IsRepoFn(f) || f.Blocks == nil {
			continue
		}
		for _, l := range c.loopsOf(f) {
			if s, ok := c.lsum[loopID(f, l)]; ok && s.ok {
				ids = append(ids, loopID(f, l))
				if lp == nil || loopID(f, l) < loopID(fn, lp) {
					fn, lp = f, l
				}
			}
		}
	}
	if lp == nil {
		return nil, nil, "", "no summarised position-wise loop"
	}
	if len(ids) > 1 {
		// two position-wise loops (a fast path next to the general comparison): the table of one of them
		// is not the table of the comparator
		sort.Strings(ids)
		var short []string
		for _, id := range ids {
			short = append(short, shortLoopID(id))
		}
		return nil, fn, "", fmt.Sprintf("the comparator runs %d position-wise loops (%s): which one decides depends on the operands, and the position table of one loop is not the comparator's", len(ids), strings.Join(short, ", "))
	}
	id := loopID(fn, lp)
	pres := ""
	find := func() {
		for _, k := range c.termKeys() {
			ti := c.terms[k]
			if ti.kind == akPresence && strings.HasPrefix(k, "present:") {
				if _, ok := c.terms["zip:"+id+"("+strings.TrimPrefix(k, "present:")+")"]; ok {
					pres = k
				}
			}
		}
	}
	find()
	if pres == "" && fn != root && len(fn.Params) == 2 {
		// the loop lives in a two-sided helper and was analysed from there: its position terms are
		// relative to the helper's parameters
		root = fn
		c.queryPair(root, nil, nil)
		find()
	}
	if pres == "" {
		if os.Getenv("GVDEBUG") != "" {
			for _, k := range c.termKeys() {
				fmt.Fprintf(os.Stderr, "zipWorlds term %s (loop %s)\n", k, id)
			}
		}
		return nil, fn, "", "the zipped sequence of the loop was not found"
	}
	seq = strings.TrimPrefix(pres, "present:")
	oof = c.withRetries(root, func() {
		leaves = nil
		c.explore(2, 400000, func(w *world) {
			o := c.runIter(root, w, 0, 1, fn, lp)
			if o == nil {
				return
			}
			for ind := 0; ind < 2; ind++ {
				if _, ok := w.pos[posKey(pres, ind)]; !ok {
					panic(needAtom{key: pres, p: ind, q: -1})
				}
			}
			leaves = append(leaves, zipLeaf{w.clone(), o})
		})
	})
	return leaves, fn, seq, oof
}

// semverIterLeaves enumerates the abstract worlds of one generic iteration of the identifier loop.
func semverIterLeaves(c *aeCtx, root *ssa.Function) (leaves []idLeaf, atoms *idAtoms, fn *ssa.Function, oof string) {
	c.queryPair(root, nil, nil)
	var lp *loop
	nloops := 0
	for f := range c.p.AllFns {
		if !c.p.IsRepoFn(f) || f.Blocks == nil {
			continue
		}
		for _, l := range c.loopsOf(f) {
			if s, ok := c.lsum[loopID(f, l)]; ok && s.ok {
				nloops++
				if lp == nil || loopID(f, l) < loopID(fn, lp) {
					fn, lp = f, l
				}
			}
		}
	}
	if lp == nil {
		return nil, nil, nil, "no summarised identifier loop"
	}
	if nloops > 1 {
		return nil, nil, fn, fmt.Sprintf("the comparator runs %d position-wise loops: the identifier table of one of them is not the comparator's", nloops)
	}
	atoms, why := findIDAtoms(c, fn, lp)
	if atoms == nil {
		return nil, nil, fn, why
	}
	oof = c.withRetries(root, func() {
		leaves = nil
		c.explore(2, 200000, func(w *world) {
			o := c.runIter(root, w, 0, 1, fn, lp)
			if o == nil {
				return
			}
			for ind := 0; ind < 2; ind++ {
				if _, ok := w.pos[posKey(atoms.pres, ind)]; !ok {
					panic(needAtom{key: atoms.pres, p: ind, q: -1}) // rows are stated per presence
				}
			}
			lf := idLeaf{desc: w.describe(c.pools, c.terms), px: -1, py: -1}
			if v, ok := w.pos[posKey(atoms.pres, 0)]; ok {
				lf.px = v
			}
			if v, ok := w.pos[posKey(atoms.pres, 1)]; ok {
				lf.py = v
			}
			lf.cx, lf.cy = atoms.class(c, w, 0), atoms.class(c, w, 1)
			if v, ok := c.cmpAssigned(w, atoms.E, 0, 1); ok {
				lf.relE = relPtr(v)
			}
			if atoms.val != "" {
				if v, ok := c.cmpAssigned(w, atoms.val, 0, 1); ok {
					lf.relV = relPtr(v)
				}
			}
			for ind := 0; ind < 2; ind++ {
				if atoms.errAtom != "" {
					if v, ok := w.pos[posKey(atoms.errAtom, ind)]; ok && v == 0 {
						guarded := false
						for _, k := range atoms.digitOK {
							if dv, ok := w.pos[posKey(k, ind)]; ok && dv == 1 {
								guarded = true
							}
						}
						for _, k := range atoms.trimKeys {
							if dv, ok := w.pos[posKey(k, ind)]; ok {
								if ci := poolIndexStr(c.pools[k], ""); ci >= 0 && dv == 2*ci+1 {
									guarded = true
								}
							}
						}
						if !guarded {
							lf.convOnly[ind] = true
						}
					}
				}
				if v, ok := w.pos[posKey(atoms.E, ind)]; ok {
					lf.posE[ind], lf.hasPosE[ind] = v, true
					if ci := poolIndexStr(c.pools[atoms.E], ""); ci >= 0 && v == 2*ci+1 {
						if ind == 0 {
							lf.emptyX = true
						} else {
							lf.emptyY = true
						}
					}
				}
			}
			v, why := outcomeValue(o)
			if why == "TAIL0" {
				why = ""
			}
			lf.got, lf.gotWhy = v, why
			leaves = append(leaves, lf)
		})
	})
	return leaves, atoms, fn, oof
}

// preStage: the proven comparator stage of Compare (possibly nested in other stages) that receives
// the pre-release field
func preStage(p *Prog, e *Eco, pre string) *ssa.Function {
	er := runAEOne(p, e)
	if er == nil {
		return nil
	}
	seen := map[string]bool{}
	var walk func(keys []string) *ssa.Function
	walk = func(keys []string) *ssa.Function {
		for _, k := range keys {
			if seen[k] {
				continue
			}
			seen[k] = true
			name := k[strings.Index(k, ":")+1:]
			arg := ""
			if i := strings.Index(name, "("); i >= 0 {
				arg = strings.TrimSuffix(name[i+1:], ")")
				name = name[:i]
			}
			for fn, si := range p.aeStages {
				if fn.Name() != name || fn.Pkg == nil || fn.Pkg.Pkg != e.VerT.Obj().Pkg() {
					continue
				}
				if arg == pre || strings.HasSuffix(arg, pre) {
					if len(si.loopsOK) > 0 {
						return fn
					}
				}
				if f := walk(si.sub); f != nil {
					return f
				}
			}
		}
		return nil
	}
	if f := walk(er.stages); f != nil {
		return f
	}
	// the comparator may have been evaluated inline: the function owning a proven loop of Compare's
	// own analysis that zips the split pre-release text
	for _, id := range er.res.loopsOK {
		zipped := false
		for k := range er.ctx.terms {
			if strings.HasPrefix(k, "len(Split("+pre+",") {
				zipped = true
			}
		}
		if !zipped {
			continue
		}
		for fn := range p.AllFns {
			if p.IsRepoFn(fn) && fn.Blocks != nil && strings.HasPrefix(id, fn.String()+"#") && len(fn.Params) == 2 {
				return fn
			}
		}
	}
	return nil
}

// R-PRE-IDWISE, R-SEMVER-TABLE, R-NUMID
func ruleSemverTable(p *Prog, r *Report) {
	for _, name := range semverFamily {
		e := ecoByName(p, name)
		if e == nil {
			continue
		}
		_, pre, why := semverKeys(p, e)
		keyID := name + ": pre-release compared identifier by identifier"
		if pre == "" {
			r.Und("R-PRE-IDWISE", keyID, p.FnPos(e.Compare), "pre-release field not located: "+why)
			continue
		}
		// non-empty pre-release sorts below the release
		{
			c := newAECtx(p)
			c.stageMode = false
			ef := ecoFieldInfo(p, e)
			ov := ef.plainPresets(map[string]override{})
			empty := constant.MakeString("")
			if isStringType(fieldTypeByName(ef.st, pre)) {
				ov[pre] = override{yConst: &empty, xGap: true}
				ov["~"+pre] = override{free: true}
			} else {
				zero := constant.MakeInt64(0)
				ov["len("+pre+")"] = override{yConst: &zero, xGap: true}
				ov["~"+pre] = override{free: true}
			}
			qr := c.queryPair(e.Compare, c.tiedExcept(ov), nil)
			key := name + ": a pre-release sorts below its release"
			switch {
			case qr.oof != "":
				r.Und("R-SEMVER-TABLE", key, p.FnPos(e.Compare), qr.describe())
			case qr.only(-1):
				r.Ok("R-SEMVER-TABLE", key, p.FnPos(e.Compare), fmt.Sprintf("x with a non-empty pre-release against y without one, numeric components equal: -1 in all %d abstract worlds", qr.leaves))
			default:
				r.Bad("R-SEMVER-TABLE", key, p.FnPos(e.Compare), "x with a pre-release, y without, numeric components equal: not always -1: "+qr.describe())
			}
		}
		st := preStage(p, e, pre)
		if st == nil {
			r.Bad("R-PRE-IDWISE", keyID, p.FnPos(e.Compare), fmt.Sprintf("Compare does not hand the pre-release field %s to an identifier-wise comparator (a proven stage with a position-wise loop over the dot-separated identifiers); SemVer 2.0.0 section 11.4 compares identifiers left to right, numeric ones as integers", pre))
			continue
		}
		c := newAECtx(p)
		c.stageMode = false // the element comparator is read row by row, not as a summarised relation
		leaves, atoms, loopFn, oof := semverIterLeaves(c, st)
		if oof != "" || atoms == nil {
			r.Bad("R-PRE-IDWISE", keyID, p.FnPos(st), fmt.Sprintf("%s has no position-wise loop over the identifiers of %s (%s)", p.FnKey(st), pre, oof))
			continue
		}
		if !strings.Contains(atoms.E, "Split(") && !strings.HasPrefix(atoms.E, "[i]") {
			r.Und("R-PRE-IDWISE", keyID, p.FnPos(st), "the zipped sequence is neither a Split of the pre-release text nor a stored identifier list: "+atoms.E)
			continue
		}
		if strings.Contains(atoms.E, "Split(") && !strings.Contains(atoms.E, `,".")`) {
			r.Bad("R-PRE-IDWISE", keyID, p.FnPos(st), "the pre-release text is split at something other than '.': "+atoms.E)
			continue
		}
		r.Ok("R-PRE-IDWISE", keyID, p.FnPos(loopFn), fmt.Sprintf("%s zips %s position by position (loop proven a position-wise total preorder)", p.FnKey(loopFn), atoms.E))
		// ... and nothing in front of or behind that loop decides: apart from the "no pre-release" cases,
		// every result of the comparator is the sign of the position-wise comparison
		{
			c3 := newAECtx(p)
			keyX := name + ": the pre-release comparison is nothing but the identifier-wise loop"
			emptyOperand := func(w *world, _ int64) bool {
				for k := range c3.terms {
					pool := c3.pools[k]
					for ci, cv := range pool {
						isEmpty := cv.Kind() == constant.String && constant.StringVal(cv) == ""
						if strings.HasPrefix(k, "len(") && cv.Kind() == constant.Int && constant.Sign(cv) == 0 {
							isEmpty = true
						}
						if isEmpty {
							for ind := 0; ind < 2; ind++ {
								if pv, ok := w.pos[posKey(k, ind)]; ok && pv == 2*ci+1 {
									return true
								}
							}
						}
					}
				}
				return false
			}
			// the same one level up: with the numeric components equal and both pre-releases present, Compare's
			// result is the result of that comparator on the pre-release field
			{
				c4 := newAECtx(p)
				keyC := name + ": with equal numeric components Compare returns the pre-release comparison"
				var cbad []string
				nc := 0
				emptyPre := func(w *world) bool {
					for k := range c4.terms {
						if !strings.Contains(k, pre) {
							continue
						}
						for ci, cv := range c4.pools[k] {
							isEmpty := cv.Kind() == constant.String && constant.StringVal(cv) == ""
							if strings.HasPrefix(k, "len(") && cv.Kind() == constant.Int && constant.Sign(cv) == 0 {
								isEmpty = true
							}
							if isEmpty {
								for ind := 0; ind < 2; ind++ {
									if pv, ok := w.pos[posKey(k, ind)]; ok && pv == 2*ci+1 {
										return true
									}
								}
							}
						}
					}
					return false
				}
				nums, _, _ := semverKeys(p, e)
				ov := map[string]override{"~": {free: true}}
				for _, nk := range nums {
					ov[nk] = override{rel: relPtr(0)}
				}
				saved := c4.filter
				c4.filter = c4.tiedExcept(ov)
				coof := c4.withRetries(e.Compare, func() {
					cbad, nc = nil, 0
					c4.explore(2, 300000, func(w *world) {
						v := c4.runPair(e.Compare, w, 0, 1, nil)
						nc++
						seen := false
						for rk, rv := range w.rel {
							if (strings.HasPrefix(rk, "stage:") || strings.HasPrefix(rk, "assumed:") || strings.HasPrefix(rk, "zip:")) && strings.Contains(rk, pre) && strings.HasSuffix(rk, "|0|1") {
								seen = true
								if int64(rv) != v {
									cbad = append(cbad, fmt.Sprintf("Compare gives %d where the pre-release comparison gives %d [%s]", v, rv, w.describe(c4.pools, c4.terms)))
								}
							}
						}
						if !seen && !emptyPre(w) {
							// the pre-release texts may simply be identical (tie without consulting the comparator)
							if v == 0 {
								return
							}
							cbad = append(cbad, fmt.Sprintf("the result %d is decided without the pre-release comparison [%s]", v, w.describe(c4.pools, c4.terms)))
						}
					})
				})
				c4.filter = saved
				switch {
				case coof != "":
					r.Und("R-PRE-EXACT", keyC, p.FnPos(e.Compare), "outside the evaluator's fragment: "+coof)
				case len(cbad) > 0:
					sort.Strings(cbad)
					r.Bad("R-PRE-EXACT", keyC, p.FnPos(e.Compare), fmt.Sprintf("%d of %d abstract worlds, e.g. %s", len(cbad), nc, cbad[0]))
				default:
					r.Ok("R-PRE-EXACT", keyC, p.FnPos(e.Compare), fmt.Sprintf("in all %d abstract worlds with equal numeric components and two pre-releases", nc))
				}
			}
			nw, zbad, zoof := zipDecides(c3, st, emptyOperand)
			switch {
			case zoof != "":
				r.Und("R-PRE-EXACT", keyX, p.FnPos(st), "outside the evaluator's fragment: "+zoof)
			case len(zbad) > 0:
				r.Bad("R-PRE-EXACT", keyX, p.FnPos(st), fmt.Sprintf("%d abstract worlds, e.g. %s", len(zbad), zbad[0]))
			default:
				r.Ok("R-PRE-EXACT", keyX, p.FnPos(st), fmt.Sprintf("in all %d abstract worlds of %s with two non-empty pre-releases the result is the sign of the position-wise comparison", nw, st.Name()))
			}
		}

		// the rows of SemVer 11.4 on every abstract world of one position
		rows := map[string]int{}
		var bad []string
		convOnly := ""
		if len(atoms.other) > 0 {
			r.Note("%s: identifier atoms not interpreted by R-SEMVER-TABLE: %v", name, atoms.other)
		}
		for _, lf := range leaves {
			if lf.px == 0 && lf.py == 0 {
				continue
			}
			exp, row := int64(0), ""
			switch {
			case lf.emptyX && lf.px == 1 || lf.emptyY && lf.py == 1:
				continue // empty identifiers are outside every accepted grammar
			case lf.px == 0:
				exp, row = -1, "missing vs present"
			case lf.py == 0:
				exp, row = 1, "present vs missing"
			case lf.cx == -1 || lf.cy == -1:
				continue // all-digit identifiers beyond 64 bits: outside the claimed range
			case lf.cx == 1 && lf.cy == 1:
				row = "numeric vs numeric"
				if lf.relV == nil {
					if lf.relE != nil && *lf.relE == 0 {
						exp = 0
					} else {
						bad = append(bad, "numeric identifiers are ordered without comparing their integer values: ["+lf.desc+"]")
						continue
					}
				} else {
					exp = int64(*lf.relV)
				}
			case lf.cx == 1 && lf.cy == 2:
				exp, row = -1, "numeric vs alphanumeric"
			case lf.cx == 2 && lf.cy == 1:
				exp, row = 1, "alphanumeric vs numeric"
			case lf.cx == 2 && lf.cy == 2:
				row = "alphanumeric vs alphanumeric"
				if lf.relE == nil {
					bad = append(bad, "alphanumeric identifiers are ordered without comparing their text: ["+lf.desc+"]")
					continue
				}
				exp = int64(*lf.relE)
			default:
				if lf.relE != nil && *lf.relE == 0 {
					exp, row = 0, "identical text"
				} else {
					bad = append(bad, "the position is decided without classifying the identifiers as numeric or alphanumeric: ["+lf.desc+"]")
					continue
				}
			}
			rows[row]++
			if lf.gotWhy != "" {
				bad = append(bad, fmt.Sprintf("row %s: %s [%s]", row, lf.gotWhy, lf.desc))
			} else if lf.got != exp {
				bad = append(bad, fmt.Sprintf("row %s: SemVer gives %d, the position gives %d [%s]", row, exp, lf.got, lf.desc))
			}
			if lf.convOnly[0] || lf.convOnly[1] {
				convOnly = lf.desc
			}
		}
		keyT := name + ": identifier rows of SemVer 11.4"
		var rk []string
		for k, n := range rows {
			rk = append(rk, fmt.Sprintf("%s ×%d", k, n))
		}
		sort.Strings(rk)
		need := []string{"missing vs present", "numeric vs numeric", "numeric vs alphanumeric", "alphanumeric vs alphanumeric"}
		for _, n := range need {
			if rows[n] == 0 && len(bad) == 0 {
				bad = append(bad, "row never exercised by the comparator: "+n)
			}
		}
		if len(bad) == 0 {
			r.Ok("R-SEMVER-TABLE", keyT, p.FnPos(loopFn), fmt.Sprintf("%d abstract worlds of one position agree with SemVer 11.4 (%s)", len(leaves), strings.Join(rk, "; ")))
		} else {
			sort.Strings(bad)
			r.Bad("R-SEMVER-TABLE", keyT, p.FnPos(loopFn), fmt.Sprintf("%d disagreeing abstract worlds, e.g. %s", len(bad), bad[0]))
		}
		keyN := name + ": numeric identifiers are recognised by an all-digits test"
		if convOnly == "" {
			r.Ok("R-NUMID", keyN, p.FnPos(loopFn), fmt.Sprintf("wherever the conversion result classifies an identifier, an all-digits test (%v %v) holds on the same path", atoms.digitOK, atoms.trimKeys))
		} else {
			r.Bad("R-NUMID", keyN, p.FnPos(loopFn), "an identifier is classified numeric by the error result of the integer conversion alone; the conversion also accepts a sign, and '-' is a legal identifier character (\"-5\" is alphanumeric in SemVer): ["+convOnly+"]")
		}
	}
	r.Floor("R-PRE-IDWISE", 6)
	r.Floor("R-PRE-EXACT", 12)
	r.Floor("R-SEMVER-TABLE", 11)
	r.Floor("R-NUMID", 5)
}

func fieldTypeByName(st *types.Struct, key string) types.Type {
	for i := 0; st != nil && i < st.NumFields(); i++ {
		if "."+st.Field(i).Name() == key {
			return st.Field(i).Type()
		}
	}
	return nil
}

func init() {
	register("C08", "SemVer-family ecosystems implement SemVer 2.0.0 precedence", ruleBuildIgnored, ruleSemverChain, ruleSemverTable)
}

// zipDecides: in every abstract world of root(x, y) the result is the sign of the summarised zip
// relation: nothing before or after the position-wise loop (a fast path, a post-adjustment) decides
// the comparison. early(w) may accept worlds that legitimately return without reaching the loop.
func zipDecides(c *aeCtx, root *ssa.Function, early func(w *world, result int64) bool) (n int, bad []string, oof string) {
	saved := c.filter
	c.filter = nil
	defer func() { c.filter = saved }()
	// the relation atom is oriented by the order in which the loop names its two sequences: the
	// result must be its sign, or its negation, in every world alike
	var same, neg []string
	oof = c.withRetries(root, func() {
		n, bad, same, neg = 0, nil, nil, nil
		c.explore(2, 300000, func(w *world) {
			v := c.runPair(root, w, 0, 1, nil)
			n++
			zipSeen := false
			for rk, rv := range w.rel {
				if strings.HasPrefix(rk, "zip:") && strings.HasSuffix(rk, "|0|1") {
					zipSeen = true
					msg := fmt.Sprintf("the result %d against the position-wise comparison %d [%s]", v, rv, w.describe(c.pools, c.terms))
					if int64(rv) != v {
						same = append(same, msg)
					}
					if int64(-rv) != v {
						neg = append(neg, msg)
					}
				}
			}
			if !zipSeen && v == 0 {
				// two empty sequences: the loop does not run and the tie is right
				for _, k := range c.termKeys() {
					if strings.HasPrefix(k, "len(") {
						if z := poolIndexInt(c.pools[k], 0); z >= 0 {
							p0, ok0 := w.pos[posKey(k, 0)]
							p1, ok1 := w.pos[posKey(k, 1)]
							if ok0 && ok1 && p0 == 2*z+1 && p1 == 2*z+1 {
								zipSeen = true
							}
						}
					}
				}
			}
			if !zipSeen && !(early != nil && early(w, v)) {
				bad = append(bad, fmt.Sprintf("the result %d is decided without the position-wise comparison [%s]", v, w.describe(c.pools, c.terms)))
			}
		})
	})
	if len(same) > 0 && len(neg) > 0 {
		sort.Strings(same)
		sort.Strings(neg)
		bad = append(bad, "the result is neither always the sign of the position-wise comparison nor always its negation: "+same[0]+" / "+neg[0])
	}
	sort.Strings(bad)
	return n, bad, oof
}

// ---- R-SEMVER-STRICT: the strict semver ecosystem rejects what SemVer 2.0.0 rejects ------------------
//
// The constructor is evaluated abstractly with the submatch list of its pattern as an abstract value
// (element k ranges over the language of capture group k). Every abstract world that returns a version
// must be incompatible with "a numeric component longer than one character starts with '0'".
// Missing components and empty identifiers are properties of the pattern itself.
func ruleSemverStrict(p *Prog, r *Report) {
	e := ecoByName(p, "semver")
	if e == nil {
		r.Und("R-SEMVER-STRICT", "semver: ecosystem", "", "ecosystem not found")
		return
	}
	ef := ecoFieldInfo(p, e)
	key := "semver: numeric components with leading zeros are rejected"
	if ef.main == nil || len(ef.leadG) < 3 {
		r.Und("R-SEMVER-STRICT", key, p.FnPos(e.NewVer), "version pattern with three leading numeric groups not found")
		return
	}
	c := newAECtx(p)
	c.stageMode = false
	c.subModel = true
	leaves, oof := c.tabulate(e.NewVer, paramArgs(e.NewVer))
	if oof != "" {
		r.Und("R-SEMVER-STRICT", key, p.FnPos(e.NewVer), "constructor outside the evaluator's fragment: "+oof)
	} else {
		var bad []string
		succ := 0
		for _, lf := range leaves {
			t, ok := lf.res.(avTuple)
			if !ok || len(t) != 2 {
				continue
			}
			if _, isNil := t[1].(avNil); !isNil {
				continue
			}
			succ++
			for _, k := range ef.leadG[:3] {
				// the atoms about group k in this world
				excluded := false
				for pk, v := range lf.w.pos {
					akey := pk[:strings.LastIndex(pk, "|")]
					suffix := fmt.Sprintf("[%d]", k)
					switch {
					case strings.HasPrefix(akey, "len(m") && strings.HasSuffix(akey, suffix+")"):
						if one := poolIndexInt(c.pools[akey], 1); one >= 0 && v <= 2*one+1 {
							excluded = true // at most one character
						}
					case strings.HasPrefix(akey, "m") && strings.HasSuffix(akey, suffix+"[0]"):
						if z := poolIndexInt(c.pools[akey], '0'); z >= 0 && v != 2*z+1 {
							excluded = true // does not start with '0'
						}
					}
				}
				if !excluded {
					bad = append(bad, fmt.Sprintf("a version is returned in a world that does not exclude a leading zero in numeric group %d: [%s]", k, lf.w.describe(c.pools, c.terms)))
				}
			}
		}
		switch {
		case len(bad) > 0:
			sort.Strings(bad)
			r.Bad("R-SEMVER-STRICT", key, p.FnPos(e.NewVer), fmt.Sprintf("%d abstract worlds, e.g. %s", len(bad), bad[0]))
		case succ < 4:
			r.Und("R-SEMVER-STRICT", key, p.FnPos(e.NewVer), fmt.Sprintf("only %d successful abstract worlds", succ))
		default:
			r.Ok("R-SEMVER-STRICT", key, p.FnPos(e.NewVer), fmt.Sprintf("in all %d successful abstract worlds of the constructor (of %d) each of the three numeric groups is at most one character long or does not start with '0'", succ, len(leaves)))
		}
	}
	// the pattern: three mandatory numeric components; identifiers are never empty
	key2 := "semver: missing components and empty identifiers are rejected by the pattern"
	var problems []string
	for _, k := range ef.leadG[:3] {
		if !(k < len(ef.main.GroupMust) && ef.main.GroupMust[k] && ef.main.GroupMin[k] >= 1) {
			problems = append(problems, fmt.Sprintf("numeric group %d is optional or may be empty", k))
		}
	}
	if !strings.HasPrefix(ef.main.Pattern, "^") || !strings.HasSuffix(ef.main.Pattern, "$") {
		problems = append(problems, "the pattern is not anchored at both ends")
	}
	for _, ch := range []string{"-", "+"} {
		k := ef.groupAfter(ch)
		if k == 0 {
			problems = append(problems, "no group after '"+ch+"'")
			continue
		}
		sub := findGroup(ef.main.Re, k)
		re, err := regexp.Compile("^(?:" + sub.String() + ")$")
		if err != nil {
			problems = append(problems, "group after '"+ch+"' could not be analysed")
			continue
		}
		for _, w := range []string{"", "a..b", ".a", "a.", "."} {
			if re.MatchString(w) {
				problems = append(problems, fmt.Sprintf("the group after '%s' accepts %q (an empty identifier)", ch, w))
			}
		}
		if !re.MatchString("a.1.b-c") {
			problems = append(problems, fmt.Sprintf("the group after '%s' does not accept dotted identifiers", ch))
		}
	}
	if len(problems) > 0 {
		r.Bad("R-SEMVER-STRICT", key2, p.FnPos(e.NewVer), strings.Join(problems, "; "))
	} else {
		r.Ok("R-SEMVER-STRICT", key2, p.FnPos(e.NewVer), "anchored pattern; three mandatory non-empty numeric groups; the pre-release and build groups accept no empty identifier (membership of \"\", \"a..b\", \".a\", \"a.\" in the group's language is decided on the pattern)")
	}
	r.Floor("R-SEMVER-STRICT", 2)
}

func init() {
	register("C08", "", ruleSemverStrict)
}
