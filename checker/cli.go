package main

import (
	"fmt"
	"go/constant"
	"go/token"
	"go/types"
	"sort"
	"strings"

	"golang.org/x/tools/go/ssa"
)

// ---- C15: the CLI is a faithful front end ------------------------------------------------

func cmdFunc(p *Prog, name string) *ssa.Function {
	return p.SSA.Package(p.Cmd.Types).Func(name)
}

// instancesOf: the reachable instances of a generic cmd function (or the function itself).
func instancesOf(p *Prog, fn *ssa.Function) []*ssa.Function {
	var out []*ssa.Function
	for f := range p.AllFns {
		if f.Origin() == fn {
			out = append(out, f)
		}
	}
	if len(out) == 0 && fn.TypeParams().Len() == 0 {
		out = append(out, fn)
	}
	sort.Slice(out, func(i, j int) bool { return out[i].String() < out[j].String() })
	return out
}

// ecoOfAlloc: v is (a MakeInterface of) &P.Ecosystem{} for some ecosystem package P.
func ecoOfValue(p *Prog, v ssa.Value) *Eco {
	if mi, ok := v.(*ssa.MakeInterface); ok {
		v = mi.X
	}
	if ct, ok := v.(*ssa.ChangeInterface); ok {
		v = ct.X
	}
	al, ok := v.(*ssa.Alloc)
	if !ok {
		return nil
	}
	et := al.Type().Underlying().(*types.Pointer).Elem()
	for _, e := range p.Ecos {
		if types.Identical(et, e.EcoT) {
			return e
		}
	}
	return nil
}

func ruleCLIReg(p *Prog, r *Report) {
	run := cmdFunc(p, "run")
	runEco := cmdFunc(p, "runEcosystem")
	if run == nil {
		r.Bad("R-CLI-REG", "cmd.run", "-", "run not found")
		return
	}
	// all map updates in run: key -> function value
	type entry struct {
		key string
		fn  *ssa.Function
		pos token.Pos
		m   ssa.Value
	}
	var entries []entry
	// the registry literal may sit in run itself or in a helper of cmd that run calls and that returns
	// a map it has just built
	regFns := []*ssa.Function{run}
	for _, blk := range run.Blocks {
		for _, ins := range blk.Instrs {
			if c, ok := ins.(*ssa.Call); ok {
				if g := c.Call.StaticCallee(); g != nil && fnPkg(g) == p.Cmd.Types && freshMapResult(g) {
					dup := false
					for _, h := range regFns {
						dup = dup || h == g
					}
					if !dup {
						regFns = append(regFns, g)
					}
				}
			}
		}
	}
	var regBlocks []*ssa.BasicBlock
	for _, g := range regFns {
		regBlocks = append(regBlocks, g.Blocks...)
	}
	for _, blk := range regBlocks {
		for _, ins := range blk.Instrs {
			mu, ok := ins.(*ssa.MapUpdate)
			if !ok {
				continue
			}
			k, okk := constString(mu.Key)
			var f *ssa.Function
			switch v := mu.Value.(type) {
			case *ssa.Function:
				f = v
			case *ssa.MakeClosure:
				f = v.Fn.(*ssa.Function)
			}
			if !okk || f == nil {
				r.Bad("R-CLI-REG", "cmd.run: registry entry", p.Pos(mu.Pos()), "registry key is not a constant or value is not a function literal")
				continue
			}
			entries = append(entries, entry{k, f, mu.Pos(), mu.Map})
		}
	}
	seenKey := map[string]bool{}
	registered := map[*Eco]string{}
	for _, en := range entries {
		key := "cmd.run: registry[" + en.key + "]"
		if seenKey[en.key] {
			r.Bad("R-CLI-REG", key, p.Pos(en.pos), "duplicate registry key")
			continue
		}
		seenKey[en.key] = true
		// the entry's function calls exactly one runner
		var ecoArg *Eco
		var forwardsArgs, isVers bool
		ncalls := 0
		for _, blk := range en.fn.Blocks {
			for _, ins := range blk.Instrs {
				c, ok := ins.(*ssa.Call)
				if !ok {
					continue
				}
				cal := c.Call.StaticCallee()
				if cal == nil {
					continue
				}
				if cal.Origin() == runEco || cal == runEco {
					ncalls++
					ecoArg = ecoOfValue(p, c.Call.Args[0])
					if len(en.fn.Params) == 1 && c.Call.Args[1] == ssa.Value(en.fn.Params[0]) {
						forwardsArgs = true
					}
				}
			}
		}
		if en.fn == cmdFunc(p, "runVers") {
			isVers = true
		}
		switch {
		case isVers:
			if en.key == "vers" {
				r.Ok("R-CLI-REG", key, p.Pos(en.pos), "spec key 'vers' routes to runVers")
			} else {
				r.Bad("R-CLI-REG", key, p.Pos(en.pos), "runVers registered under a key other than 'vers'")
			}
		case ncalls == 1 && ecoArg != nil && forwardsArgs:
			if ecoArg.NameVal == en.key {
				r.Ok("R-CLI-REG", key, p.Pos(en.pos), "key equals the Name() constant of package "+ecoArg.Name+" whose Ecosystem the entry passes to runEcosystem")
				registered[ecoArg] = en.key
			} else {
				r.Bad("R-CLI-REG", key, p.Pos(en.pos), fmt.Sprintf("key %q dispatches to the %s ecosystem, whose Name() is %q", en.key, ecoArg.Name, ecoArg.NameVal))
			}
		default:
			r.Bad("R-CLI-REG", key, p.Pos(en.pos), "registry entry does not call runEcosystem(&P.Ecosystem{}, args) exactly once with its own args")
		}
	}
	// direct dispatch: if args[0] == "<key>" { runVers(args[1:]) } / runEcosystem(&P.Ecosystem{}, args[1:])
	// written without a table counts as a registry entry plus its dispatch
	directDispatch := 0
	for _, blk := range run.Blocks {
		for _, ins := range blk.Instrs {
			c, ok := ins.(*ssa.Call)
			if !ok {
				continue
			}
			cal := c.Call.StaticCallee()
			if cal == nil {
				continue
			}
			isV := cal == cmdFunc(p, "runVers")
			isE := runEco != nil && (cal.Origin() == runEco || cal == runEco)
			if !isV && !isE {
				continue
			}
			guardKey, guarded := "", false
			domEdges(blk, func(cond ssa.Value, tv bool) bool {
				bo, ok := cond.(*ssa.BinOp)
				if !ok || !(bo.Op == token.EQL && tv || bo.Op == token.NEQ && !tv) {
					return false
				}
				x, y := bo.X, bo.Y
				if _, isC := constString(x); isC {
					x, y = y, x
				}
				if k, isC := constString(y); isC && isElemLoad(x, run.Params[1], 0) {
					guardKey, guarded = k, true
					return true
				}
				return false
			})
			if !guarded {
				// a switch on args[0]
				if k := switchConstAt(blk, run.Params[1]); k != "" {
					guardKey, guarded = k, true
				}
			}
			argsIdx := 0
			if isE {
				argsIdx = 1
			}
			key := "cmd.run: registry[" + guardKey + "]"
			if !guarded || len(c.Call.Args) <= argsIdx || !isSliceFrom(c.Call.Args[argsIdx], run.Params[1], 1) {
				r.Bad("R-CLI-REG", "cmd.run: direct call of "+cal.Name(), p.Pos(c.Pos()), "a runner is called directly without a dominating test args[0] == <constant> or not with args[1:]")
				continue
			}
			if seenKey[guardKey] {
				r.Bad("R-CLI-REG", key, p.Pos(c.Pos()), "duplicate registry key")
				continue
			}
			seenKey[guardKey] = true
			directDispatch++
			switch {
			case isV && guardKey == "vers":
				r.Ok("R-CLI-REG", key, p.Pos(c.Pos()), "args[0] == \"vers\" routes to runVers")
			case isV:
				r.Bad("R-CLI-REG", key, p.Pos(c.Pos()), "runVers dispatched under a key other than 'vers'")
			default:
				ecoArg := ecoOfValue(p, c.Call.Args[0])
				if ecoArg != nil && ecoArg.NameVal == guardKey {
					r.Ok("R-CLI-REG", key, p.Pos(c.Pos()), "key equals the Name() constant of package "+ecoArg.Name+" whose Ecosystem is passed to runEcosystem")
					registered[ecoArg] = guardKey
				} else {
					r.Bad("R-CLI-REG", key, p.Pos(c.Pos()), fmt.Sprintf("key %q dispatches to another ecosystem", guardKey))
				}
			}
			r.Ok("R-CLI-REG", fmt.Sprintf("cmd.run: direct dispatch[%s]", guardKey), p.Pos(c.Pos()), "tests args[0] and calls the runner with args[1:]")
		}
	}
	names := map[string]string{}
	for _, e := range p.Ecos {
		key := "ecosystem " + e.Name + " registered"
		if e.NameVal == "" {
			r.Bad("R-CLI-REG", "ecosystem "+e.Name+" Name()", p.FnPos(e.NameFn), "Name() does not return a string constant")
			continue
		}
		if other, dup := names[e.NameVal]; dup {
			r.Bad("R-CLI-REG", "ecosystem "+e.Name+" Name()", p.FnPos(e.NameFn), "Name() value collides with "+other)
		}
		names[e.NameVal] = e.Name
		if _, ok := registered[e]; ok {
			r.Ok("R-CLI-REG", key, p.FnPos(e.NameFn), "registered under its own name "+e.NameVal)
		} else {
			r.Bad("R-CLI-REG", key, p.FnPos(e.NameFn), "the library defines ecosystem "+e.NameVal+" but the CLI registry has no entry that dispatches to it")
		}
		if e.NameVal == "vers" {
			r.Bad("R-CLI-REG", key, p.FnPos(e.NameFn), "ecosystem name collides with the spec key")
		}
	}
	// dispatch: run looks args[0] up in the maps and calls the found function with args[1:]
	ndisp := 0
	for _, blk := range run.Blocks {
		for _, ins := range blk.Instrs {
			c, ok := ins.(*ssa.Call)
			if !ok || c.Call.StaticCallee() != nil || c.Call.IsInvoke() {
				continue
			}
			if _, isB := c.Call.Value.(*ssa.Builtin); isB {
				continue
			}
			ndisp++
			key := fmt.Sprintf("cmd.run: dispatch#%d", ndisp)
			// the entry looked up with args[0]; with several tables consulted in turn, a phi of such lookups
			var cands []ssa.Value
			if ph, isPhi := c.Call.Value.(*ssa.Phi); isPhi {
				cands = append(cands, ph.Edges...)
			} else {
				cands = append(cands, c.Call.Value)
			}
			okKey := len(cands) > 0
			for _, cv := range cands {
				ex, ok := cv.(*ssa.Extract)
				var lk *ssa.Lookup
				if ok {
					lk, _ = ex.Tuple.(*ssa.Lookup)
				}
				okKey = okKey && lk != nil && isElemLoad(lk.Index, run.Params[1], 0)
			}
			okArg := len(c.Call.Args) == 1 && isSliceFrom(c.Call.Args[0], run.Params[1], 1)
			if okKey && okArg {
				r.Ok("R-CLI-REG", key, p.Pos(c.Pos()), "looks up args[0] and calls the entry with args[1:]")
			} else {
				r.Bad("R-CLI-REG", key, p.Pos(c.Pos()), "dispatch does not use registry[args[0]](args[1:])")
			}
		}
	}
	r.Floor("R-CLI-REG", 42) // 21 entries + 20 ecosystems + at least one dispatch site (two tables may share one)
}

// isElemLoad: v is args[i] for the given slice parameter.
func isElemLoad(v ssa.Value, par ssa.Value, i int64) bool {
	u, ok := v.(*ssa.UnOp)
	if !ok || u.Op != token.MUL {
		return false
	}
	ia, ok := u.X.(*ssa.IndexAddr)
	if !ok || ia.X != par {
		return false
	}
	c, ok := constInt(ia.Index)
	return ok && c == i
}

func isSliceFrom(v ssa.Value, par ssa.Value, lo int64) bool {
	s, ok := v.(*ssa.Slice)
	if !ok || s.X != par || s.High != nil || s.Low == nil {
		return false
	}
	c, ok := constInt(s.Low)
	return ok && c == lo
}

// ctorResult: v is the value result of calling method name on the ecosystem parameter with args[i].
func ctorResult(fn *ssa.Function, v ssa.Value, method string, i int64) bool {
	ex, ok := v.(*ssa.Extract)
	if !ok || ex.Index != 0 {
		return false
	}
	c, ok := ex.Tuple.(*ssa.Call)
	if !ok {
		return false
	}
	name := ""
	var recv ssa.Value
	if c.Call.IsInvoke() {
		name = c.Call.Method.Name()
		recv = c.Call.Value
	} else if f := c.Call.StaticCallee(); f != nil && len(c.Call.Args) > 0 {
		name = f.Name()
		recv = c.Call.Args[0]
		// a wrapper of the CLI package around the constructor: parseVersion(e, s) = e.NewVersion(s) with the
		// error re-worded
		if m, ep, sp, ok := parseWrapper(f); ok && m == method && len(c.Call.Args) > max(ep, sp) {
			return len(fn.Params) >= 2 && c.Call.Args[ep] == ssa.Value(fn.Params[0]) && isElemLoad(c.Call.Args[sp], fn.Params[1], i)
		}
	}
	if name != method || len(fn.Params) < 2 {
		return false
	}
	if recv != ssa.Value(fn.Params[0]) {
		// instance: the interface parameter may be type-asserted/changed
		if ct, ok := recv.(*ssa.ChangeInterface); !ok || ct.X != ssa.Value(fn.Params[0]) {
			return false
		}
	}
	args := c.Call.Args
	if !c.Call.IsInvoke() {
		args = args[1:]
	}
	return len(args) == 1 && isElemLoad(args[0], fn.Params[1], i)
}

// parseWrapper: g(e, s) returns (x, nil) only with x the first result of e.<method>(s), and otherwise an
// error: the constructor's result handed through
func parseWrapper(g *ssa.Function) (method string, ecoParam, strParam int, ok bool) {
	if g == nil || g.Blocks == nil || g.Signature.Results().Len() != 2 || len(g.Params) != 2 {
		return "", 0, 0, false
	}
	if o := g.Origin(); o != nil && o.Pkg == nil {
		return "", 0, 0, false
	}
	n := 0
	for _, b := range g.Blocks {
		ret, isRet := b.Instrs[len(b.Instrs)-1].(*ssa.Return)
		if !isRet {
			continue
		}
		if !isNilConst(ret.Results[1]) {
			continue // an error return: whatever the value is, R-PAIR of C06 judges it
		}
		ex, isEx := ret.Results[0].(*ssa.Extract)
		if !isEx || ex.Index != 0 {
			return "", 0, 0, false
		}
		c, isCall := ex.Tuple.(*ssa.Call)
		if !isCall {
			return "", 0, 0, false
		}
		var name string
		var recv ssa.Value
		var args []ssa.Value
		if c.Call.IsInvoke() {
			name, recv, args = c.Call.Method.Name(), c.Call.Value, c.Call.Args
		} else if f := c.Call.StaticCallee(); f != nil && len(c.Call.Args) > 0 {
			name, recv, args = f.Name(), c.Call.Args[0], c.Call.Args[1:]
		}
		if ct, isCT := recv.(*ssa.ChangeInterface); isCT {
			recv = ct.X
		}
		ep, sp := -1, -1
		for i, prm := range g.Params {
			if recv == ssa.Value(prm) {
				ep = i
			}
			if len(args) == 1 && args[0] == ssa.Value(prm) {
				sp = i
			}
		}
		if name == "" || ep < 0 || sp < 0 || !errNilEdgeDominates(c, b) {
			return "", 0, 0, false
		}
		if method != "" && (method != name || ecoParam != ep || strParam != sp) {
			return "", 0, 0, false
		}
		method, ecoParam, strParam = name, ep, sp
		n++
	}
	return method, ecoParam, strParam, n > 0
}

func ruleCLIArgs(p *Prog, r *Report) {
	type spec struct {
		fn, op   string
		recvCtor string
		recvIdx  int64
		argCtor  string
		argIdx   int64
	}
	specs := []spec{
		{"compare", "Compare", "NewVersion", 0, "NewVersion", 1},
		{"contains", "Contains", "NewVersionRange", 0, "NewVersion", 1},
	}
	for _, sp := range specs {
		gen := cmdFunc(p, sp.fn)
		if gen == nil {
			r.Bad("R-CLI-ARGS", "cmd."+sp.fn, "-", "function not found")
			continue
		}
		insts := instancesOf(p, gen)
		if len(insts) == 0 {
			r.Bad("R-CLI-ARGS", "cmd."+sp.fn, p.FnPos(gen), "no instances")
			continue
		}
		fn := insts[0]
		key := fmt.Sprintf("cmd.%s: %s(%s(args[%d])).%s(%s(args[%d]))", sp.fn, "", sp.recvCtor, sp.recvIdx, sp.op, sp.argCtor, sp.argIdx)
		found := false
		for _, blk := range fn.Blocks {
			ret, ok := blk.Instrs[len(blk.Instrs)-1].(*ssa.Return)
			if !ok || !isNilConst(ret.Results[1]) {
				continue
			}
			// success return: result is the operation's call
			c, ok := ret.Results[0].(*ssa.Call)
			if !ok {
				r.Bad("R-CLI-ARGS", key, p.Pos(ret.Pos()), "success return does not return the library operation's result directly")
				found = true
				continue
			}
			name := ""
			var recv ssa.Value
			args := c.Call.Args
			if c.Call.IsInvoke() {
				name, recv = c.Call.Method.Name(), c.Call.Value
			} else if f := c.Call.StaticCallee(); f != nil && len(args) > 0 {
				name, recv, args = f.Name(), args[0], args[1:]
			}
			found = true
			if name == sp.op && len(args) == 1 && ctorResult(fn, recv, sp.recvCtor, sp.recvIdx) && ctorResult(fn, args[0], sp.argCtor, sp.argIdx) {
				r.Ok("R-CLI-ARGS", key, p.Pos(c.Pos()), "receiver and argument come from the right constructor applied to the right argument")
			} else {
				r.Bad("R-CLI-ARGS", key, p.Pos(c.Pos()), "operation's receiver/argument do not derive from "+sp.recvCtor+"(args[0]) and "+sp.argCtor+"(args[1]) of the same ecosystem")
			}
		}
		if !found {
			r.Bad("R-CLI-ARGS", key, p.FnPos(fn), "no success return found")
		}
		// arity guard: len(args) != 2 returns an error before any indexing (indexing itself: C06 R-PANIC-BOUNDS)
	}
	// versContains: vers.Contains(args[0], args[1]) forwarded
	vc := cmdFunc(p, "versContains")
	versC := p.PkgFunc(p.Vers, "Contains")
	okv := false
	if vc != nil {
		for _, blk := range vc.Blocks {
			for _, ins := range blk.Instrs {
				if c, ok := ins.(*ssa.Call); ok && c.Call.StaticCallee() == versC {
					if len(c.Call.Args) == 2 && isElemLoad(c.Call.Args[0], vc.Params[0], 0) && isElemLoad(c.Call.Args[1], vc.Params[0], 1) {
						// both results returned
						for _, ref := range *c.Referrers() {
							_ = ref
						}
						okv = true
					}
				}
			}
		}
	}
	if okv {
		r.Ok("R-CLI-ARGS", "cmd.versContains: vers.Contains(args[0], args[1])", p.FnPos(vc), "range first, version second")
	} else {
		r.Bad("R-CLI-ARGS", "cmd.versContains: vers.Contains(args[0], args[1])", "-", "versContains does not call vers.Contains(args[0], args[1])")
	}
	// runEcosystem: command = args[0]; switch on constants dispatches to compare/sort/contains with (e, args[1:])
	re := cmdFunc(p, "runEcosystem")
	if re != nil {
		insts := instancesOf(p, re)
		if len(insts) > 0 {
			fn := insts[0]
			want := map[string]string{"compare": "compare", "sort": "sort", "contains": "contains"}
			got := map[string]string{}
			for _, blk := range fn.Blocks {
				for _, ins := range blk.Instrs {
					c, ok := ins.(*ssa.Call)
					if !ok {
						continue
					}
					cal := c.Call.StaticCallee()
					if cal == nil || cal.Origin() == nil || fnPkg(cal) != p.Cmd.Types {
						continue
					}
					name := cal.Origin().Name()
					// which constant was args[0] compared with on the dominating edge?
					k := switchConstAt(blk, fn.Params[1])
					okArgs := len(c.Call.Args) == 2 && c.Call.Args[0] == ssa.Value(fn.Params[0]) && isSliceFrom(c.Call.Args[1], fn.Params[1], 1)
					if !okArgs {
						r.Bad("R-CLI-ARGS", "cmd.runEcosystem: call "+name, p.Pos(c.Pos()), "command implementation not called with (e, args[1:])")
						continue
					}
					got[k] = name
				}
			}
			for k, w := range want {
				key := "cmd.runEcosystem: command " + k
				if got[k] == w {
					r.Ok("R-CLI-ARGS", key, p.FnPos(fn), "command word dispatches to its implementation with (e, args[1:])")
				} else {
					r.Bad("R-CLI-ARGS", key, p.FnPos(fn), fmt.Sprintf("command %q dispatches to %q", k, got[k]))
				}
			}
		}
	}
	// runVers: "contains" -> versContains(args[1:])
	rv := cmdFunc(p, "runVers")
	okrv := false
	if rv != nil {
		for _, blk := range rv.Blocks {
			for _, ins := range blk.Instrs {
				if c, ok := ins.(*ssa.Call); ok && c.Call.StaticCallee() == vc {
					if switchConstAt(blk, rv.Params[0]) == "contains" && isSliceFrom(c.Call.Args[0], rv.Params[0], 1) {
						okrv = true
					}
				}
			}
		}
	}
	if okrv {
		r.Ok("R-CLI-ARGS", "cmd.runVers: command contains", p.FnPos(rv), "dispatches to versContains(args[1:])")
	} else {
		r.Bad("R-CLI-ARGS", "cmd.runVers: command contains", "-", "runVers does not dispatch 'contains' to versContains(args[1:])")
	}
	r.Floor("R-CLI-ARGS", 7)
}

// switchConstAt: the string constant that args[0] equals on the edge dominating blk.
func switchConstAt(blk *ssa.BasicBlock, args ssa.Value) string {
	out := ""
	domEdges(blk, func(cond ssa.Value, tv bool) bool {
		bo, ok := cond.(*ssa.BinOp)
		if !ok || !(bo.Op == token.EQL && tv || bo.Op == token.NEQ && !tv) {
			return false
		}
		x, y := bo.X, bo.Y
		if _, isC := constString(x); isC {
			x, y = y, x
		}
		k, ok := constString(y)
		if !ok || !isElemLoad(x, args, 0) {
			return false
		}
		out = k
		return true
	})
	return out
}

// ---- R-CLI-FORMAT: success output is built only from %d / %t / %q renderings --------------------

func fmtVerbs(format string) ([]string, bool) {
	var verbs []string
	for i := 0; i < len(format); i++ {
		if format[i] == '\n' || format[i] == '\r' {
			return nil, false
		}
		if format[i] != '%' {
			continue
		}
		i++
		if i >= len(format) {
			return nil, false
		}
		if format[i] == '%' {
			continue
		}
		verbs = append(verbs, "%"+string(format[i]))
	}
	return verbs, true
}

// lineSafe: the string value v cannot contain a newline: built from constants without newlines,
// Sprintf with %d(int)/%t(bool)/%q only, concatenation, TrimSpace, and phis of such.
func lineSafe(v ssa.Value, seen map[ssa.Value]bool, why *string) bool {
	if seen[v] {
		return true
	}
	seen[v] = true
	switch x := v.(type) {
	case *ssa.Const:
		if x.Value == nil {
			return true
		}
		if x.Value.Kind() == constant.String {
			s := constant.StringVal(x.Value)
			if strings.ContainsAny(s, "\n\r") {
				*why = "constant contains a line break"
				return false
			}
		}
		return true
	case *ssa.Phi:
		for _, e := range x.Edges {
			if !lineSafe(e, seen, why) {
				return false
			}
		}
		return true
	case *ssa.BinOp:
		if x.Op == token.ADD {
			return lineSafe(x.X, seen, why) && lineSafe(x.Y, seen, why)
		}
	case *ssa.Call:
		f := x.Call.StaticCallee()
		if f == nil {
			break
		}
		switch f.String() {
		case "strings.TrimSpace":
			return lineSafe(x.Call.Args[0], seen, why)
		case "(*strings.Builder).String":
			// everything written into the local builder
			al, ok := x.Call.Args[0].(*ssa.Alloc)
			if !ok {
				*why = "a builder that is not a local variable"
				return false
			}
			for _, ref := range *al.Referrers() {
				c, ok := ref.(*ssa.Call)
				if !ok {
					if _, isDbg := ref.(*ssa.DebugRef); isDbg {
						continue
					}
					if mi, isMI := ref.(*ssa.MakeInterface); isMI {
						// handed to fmt.Fprintf as the writer
						for _, r2 := range *mi.Referrers() {
							fc, ok := r2.(*ssa.Call)
							if !ok {
								continue
							}
							g := fc.Call.StaticCallee()
							if g == nil || g.String() != "fmt.Fprintf" || fc.Call.Args[0] != ssa.Value(mi) {
								*why = "the builder is handed to something other than fmt.Fprintf"
								return false
							}
							format, ok := constString(fc.Call.Args[1])
							verbs, okv := fmtVerbs(format)
							if !ok || !okv {
								*why = "Fprintf into the builder with a format that is not a newline-free constant"
								return false
							}
							var ops []ssa.Value
							if len(fc.Call.Args) == 3 {
								ops = varargOperands(fc.Call.Args[2])
							}
							if len(ops) != len(verbs) {
								*why = "format/operand count mismatch"
								return false
							}
							for i, vb := range verbs {
								b, _ := ops[i].Type().Underlying().(*types.Basic)
								switch {
								case vb == "%d" && b != nil && b.Info()&types.IsInteger != 0:
								case vb == "%t" && b != nil && b.Kind() == types.Bool:
								case vb == "%q" && b != nil && b.Info()&types.IsString != 0:
								default:
									*why = "verb " + vb + " can emit arbitrary text"
									return false
								}
							}
						}
						continue
					}
					*why = "the builder's address escapes"
					return false
				}
				g := c.Call.StaticCallee()
				if g == nil {
					*why = "dynamic call on the builder"
					return false
				}
				switch g.String() {
				case "(*strings.Builder).String", "(*strings.Builder).Len", "(*strings.Builder).Reset", "(*strings.Builder).Grow":
				case "(*strings.Builder).WriteString":
					if !lineSafe(c.Call.Args[1], seen, why) {
						return false
					}
				case "(*strings.Builder).WriteByte", "(*strings.Builder).WriteRune":
					if k, ok := constInt(c.Call.Args[1]); !ok || k == '\n' || k == '\r' {
						*why = "a character written into the builder may be a line break"
						return false
					}
				default:
					*why = "the builder is used by " + g.String()
					return false
				}
			}
			return true
		case "strings.Join":
			// every element put into the list and the separator
			if !lineSafe(x.Call.Args[1], seen, why) {
				return false
			}
			elems, ok := listElements(x.Call.Args[0], map[ssa.Value]bool{})
			if !ok {
				*why = "joins a list whose elements cannot be enumerated"
				return false
			}
			for _, el := range elems {
				if !lineSafe(el, seen, why) {
					return false
				}
			}
			return true
		case "fmt.Sprintf":
			format, ok := constString(x.Call.Args[0])
			if !ok {
				*why = "non-constant format"
				return false
			}
			verbs, ok := fmtVerbs(format)
			if !ok {
				*why = "format contains a line break"
				return false
			}
			// operands: varargs slice
			var ops []ssa.Value
			if len(x.Call.Args) == 2 {
				ops = varargOperands(x.Call.Args[1])
			}
			if len(ops) != len(verbs) {
				*why = "format/operand count mismatch"
				return false
			}
			for i, vb := range verbs {
				t := ops[i].Type().Underlying()
				b, _ := t.(*types.Basic)
				switch vb {
				case "%d":
					if b == nil || b.Info()&types.IsInteger == 0 {
						*why = "%d of a non-integer"
						return false
					}
				case "%t":
					if b == nil || b.Kind() != types.Bool {
						*why = "%t of a non-bool"
						return false
					}
				case "%q":
					if b == nil || b.Info()&types.IsString == 0 {
						*why = "%q of a non-string"
						return false
					}
				default:
					*why = "verb " + vb + " can emit arbitrary text"
					return false
				}
			}
			return true
		}
		// a helper of the CLI package that returns a string: every value it returns must be line-safe
		// (its parameters are not: a raw argument returned as it is stays unrecognised)
		parent := x.Parent()
		if o := parent.Origin(); o != nil {
			parent = o
		}
		if f.Blocks != nil && f.Pkg != nil && parent.Pkg == f.Pkg && f.Signature.Results().Len() == 1 {
			for _, b := range f.Blocks {
				if ret, ok := b.Instrs[len(b.Instrs)-1].(*ssa.Return); ok {
					if !lineSafe(ret.Results[0], seen, why) {
						*why = "built by " + f.Name() + ": " + *why
						return false
					}
				}
			}
			return true
		}
		*why = "built by " + f.String()
		return false
	}
	*why = fmt.Sprintf("unrecognised string source %T", v)
	return false
}

// listElements: every value ever put into the locally built string list v (appends and indexed stores)
func listElements(v ssa.Value, seen map[ssa.Value]bool) ([]ssa.Value, bool) {
	if seen[v] {
		return nil, true
	}
	seen[v] = true
	switch x := v.(type) {
	case *ssa.Const:
		return nil, x.Value == nil
	case *ssa.MakeSlice:
		var out []ssa.Value
		for _, ref := range *x.Referrers() {
			switch r := ref.(type) {
			case *ssa.IndexAddr:
				for _, r2 := range *r.Referrers() {
					if st, ok := r2.(*ssa.Store); ok && st.Addr == ssa.Value(r) {
						out = append(out, st.Val)
					} else if _, isLoad := r2.(*ssa.UnOp); !isLoad {
						return nil, false
					}
				}
			case *ssa.Call, *ssa.Phi, *ssa.DebugRef, *ssa.Slice, *ssa.Store:
			default:
				return nil, false
			}
		}
		return out, true
	case *ssa.Phi:
		var out []ssa.Value
		for _, ed := range x.Edges {
			els, ok := listElements(ed, seen)
			if !ok {
				return nil, false
			}
			out = append(out, els...)
		}
		return out, true
	case *ssa.Call:
		if bi, ok := x.Call.Value.(*ssa.Builtin); ok && bi.Name() == "append" {
			base, ok := listElements(x.Call.Args[0], seen)
			if !ok {
				return nil, false
			}
			if len(x.Call.Args) == 2 {
				ops := varargOperands(x.Call.Args[1])
				if ops == nil {
					return nil, false
				}
				base = append(base, ops...)
			}
			return base, true
		}
	case *ssa.Slice:
		if al, ok := x.X.(*ssa.Alloc); ok {
			// a literal []string{...}
			var out []ssa.Value
			for _, ref := range *al.Referrers() {
				if ia, ok := ref.(*ssa.IndexAddr); ok {
					for _, r2 := range *ia.Referrers() {
						if st, ok := r2.(*ssa.Store); ok && st.Addr == ssa.Value(ia) {
							out = append(out, st.Val)
						}
					}
				}
			}
			return out, true
		}
		return listElements(x.X, seen)
	}
	return nil, false
}

func varargOperands(v ssa.Value) []ssa.Value {
	sl, ok := v.(*ssa.Slice)
	if !ok {
		return nil
	}
	al, ok := sl.X.(*ssa.Alloc)
	if !ok {
		return nil
	}
	m := map[int64]ssa.Value{}
	for _, ref := range *al.Referrers() {
		if ia, ok := ref.(*ssa.IndexAddr); ok {
			ci, _ := constInt(ia.Index)
			for _, r2 := range *ia.Referrers() {
				if s, ok := r2.(*ssa.Store); ok && s.Addr == ia {
					val := s.Val
					if mi, ok := val.(*ssa.MakeInterface); ok {
						val = mi.X
					}
					m[ci] = val
				}
			}
		}
	}
	out := make([]ssa.Value, len(m))
	for i := range out {
		out[i] = m[int64(i)]
		if out[i] == nil {
			return nil
		}
	}
	return out
}

func ruleCLIFormat(p *Prog, r *Report) {
	for _, name := range []string{"runEcosystem", "runVers"} {
		gen := cmdFunc(p, name)
		if gen == nil {
			r.Bad("R-CLI-FORMAT", "cmd."+name, "-", "not found")
			continue
		}
		insts := instancesOf(p, gen)
		if len(insts) == 0 {
			continue
		}
		fn := insts[0]
		n := 0
		for _, blk := range fn.Blocks {
			ret, ok := blk.Instrs[len(blk.Instrs)-1].(*ssa.Return)
			if !ok {
				continue
			}
			if c, ok := constInt(ret.Results[1]); !ok || c != 0 {
				continue
			}
			n++
			key := fmt.Sprintf("cmd.%s: success output#%d", name, n)
			why := ""
			if lineSafe(ret.Results[0], map[ssa.Value]bool{}, &why) {
				r.Ok("R-CLI-FORMAT", key, p.Pos(ret.Pos()), "built only from %d/%t/%q renderings and newline-free constants: exactly one line, versions quoted")
			} else {
				r.Bad("R-CLI-FORMAT", key, p.Pos(ret.Pos()), "success output may contain raw argument text or a line break: "+why)
			}
		}
		if n == 0 {
			r.Bad("R-CLI-FORMAT", "cmd."+name+": success output", p.FnPos(fn), "no success return")
		}
	}
	// results rendered are the command results: compare's int -> %d etc. is covered by operand typing;
	// sort: each element of sort()'s result is rendered once, in order (range over the slice)
	r.Floor("R-CLI-FORMAT", 2)
}

// ---- R-CLI-ONEWRITE: every path through run writes exactly one "%s\n" line ------------------------

func ruleCLIOneWrite(p *Prog, r *Report) {
	run := cmdFunc(p, "run")
	if run == nil {
		return
	}
	isWrite := func(ins ssa.Instruction) (bool, bool) {
		c, ok := ins.(*ssa.Call)
		if !ok {
			return false, false
		}
		f := c.Call.StaticCallee()
		if f == nil {
			return false, false
		}
		for _, a := range c.Call.Args {
			if a == ssa.Value(run.Params[0]) {
				// shape: Fprintf(w, "%s\n", one string)
				good := false
				if f.String() == "fmt.Fprintf" && len(c.Call.Args) == 3 {
					if format, ok := constString(c.Call.Args[1]); ok && format == "%s\n" {
						ops := varargOperands(c.Call.Args[2])
						if len(ops) == 1 {
							good = true
						}
					}
				}
				return true, good
			}
		}
		return false, false
	}
	if len(findLoops(run)) > 0 {
		r.Bad("R-CLI-ONEWRITE", "cmd.run: acyclic", p.FnPos(run), "run contains a loop: write count per path not bounded by this rule")
		return
	}
	// min/max writes on paths to each return (DAG)
	type mm struct{ lo, hi int }
	memo := map[*ssa.BasicBlock]map[bool]mm{}
	_ = memo
	var walk func(b *ssa.BasicBlock, count int, bad *bool)
	nret := 0
	walk = func(b *ssa.BasicBlock, count int, bad *bool) {
		for _, ins := range b.Instrs {
			if w, good := isWrite(ins); w {
				count++
				if !good {
					*bad = true
				}
			}
		}
		if ret, ok := b.Instrs[len(b.Instrs)-1].(*ssa.Return); ok {
			nret++
			key := fmt.Sprintf("cmd.run: path to return@%s", retDesc(ret.Results[0]))
			if count == 1 && !*bad {
				r.Ok("R-CLI-ONEWRITE", key, p.Pos(ret.Pos()), "exactly one Fprintf(w, \"%s\\n\", line) on this path")
			} else {
				r.Bad("R-CLI-ONEWRITE", key, p.Pos(ret.Pos()), fmt.Sprintf("%d writes to the output on a path through run (want exactly one \"%%s\\n\" line)", count))
			}
			return
		}
		for _, s := range b.Succs {
			bb := *bad
			walk(s, count, &bb)
		}
	}
	bad := false
	walk(run.Blocks[0], 0, &bad)
	// nothing else in cmd writes: every external callee reachable from run (except run's own Fprintf
	// and main's os.Exit) is on the pure allow-list
	fns := p.Representatives(p.RepoReachable(p.CLIRoots()...))
	for _, fn := range fns {
		if fnPkg(fn) != p.Cmd.Types {
			continue
		}
		for _, blk := range fn.Blocks {
			for _, ins := range blk.Instrs {
				c, ok := ins.(ssa.CallInstruction)
				if !ok {
					continue
				}
				for _, n := range p.calleeNames(c) {
					if n.repo || isPureExternal(n.name) || n.name == "builtin.append" || strings.HasSuffix(n.name, ".init") {
						continue
					}
					if _, ok := mutatorExternal[n.name]; ok {
						continue
					}
					if fn == run && n.name == "fmt.Fprintf" {
						continue
					}
					// formatting into a local strings.Builder is not output
					if n.name == "fmt.Fprintf" && len(c.Common().Args) > 0 {
						if mi, ok := c.Common().Args[0].(*ssa.MakeInterface); ok {
							if al, ok := mi.X.(*ssa.Alloc); ok && strings.HasSuffix(al.Type().String(), "strings.Builder") {
								continue
							}
						}
					}
					if fn.Name() == "main" && (n.name == "os.Exit") {
						continue
					}
					if strings.HasSuffix(n.name, ").Error") || strings.HasPrefix(n.name, "invoke:error") {
						continue
					}
					r.Bad("R-CLI-ONEWRITE", p.FnKey(fn)+": call "+n.name, p.Pos(c.Pos()), "a CLI function other than run performs I/O or calls an unlisted function")
				}
			}
		}
		// no direct use of os.Stdout/os.Stderr outside main
		for _, blk := range fn.Blocks {
			for _, ins := range blk.Instrs {
				for _, op := range ins.Operands(nil) {
					if g, ok := (*op).(*ssa.Global); ok && g.Pkg != nil && g.Pkg.Pkg.Path() == "os" && fn.Name() != "main" {
						r.Bad("R-CLI-ONEWRITE", p.FnKey(fn)+": uses os."+g.Name(), p.Pos(ins.Pos()), "CLI code other than main touches an os stream")
					}
				}
			}
		}
	}
	r.Floor("R-CLI-ONEWRITE", 4)
}

func init() {
	register("C15", "Structural equality of the CLI with the library: (R-CLI-REG) every ecosystem the library defines is registered in run under the constant its own Name() returns and the entry passes that same package's Ecosystem to runEcosystem with its args; 'vers' routes to runVers; dispatch is registry[args[0]](args[1:]); (R-CLI-ARGS) compare/contains/versContains apply the right constructor to the right argument and return the library result unmodified; command words dispatch to their implementations; (R-CLI-FORMAT) success output is built only from %d/%t/%q renderings; (R-CLI-ONEWRITE) every path through run writes exactly one \"%s\\n\" line and nothing else in cmd performs output; exit codes via C06's R-EXIT (re-run here).", ruleCLIReg, ruleCLIArgs, ruleCLIFormat, ruleCLIOneWrite, ruleExit)
}

// C06's CLI clause ("the CLI turns every failure into a diagnostic and exit status 1") needs every
// command to reach its answer through the library operations on its arguments: an answer given before an
// argument has been parsed (a shortcut for identical arguments) reports success for input the library
// rejects. R-CLI-ARGS of C15 decides that; its obligations are taken over.
func ruleCLIArgsForC06(p *Prog, r *Report) {
	runImports(p, r, []importSpec{{"cli", []ruleFn{ruleCLIArgs}, func(rule, key string) bool { return rule == "R-CLI-ARGS" }, map[string]int{"R-CLI-ARGS": 3}}})
}

func init() {
	register("C06", "", ruleCLIArgsForC06)
}

// R-CLI-SEQ: the CLI is sequential. The commands hand their arguments to the library in the order given and
// print what it returns; a goroutine, a channel or a select in cmd makes the order in which results are
// collected (which of several invalid arguments is reported, the order of Compare-equal inputs handed to the
// sort) depend on the schedule, so the same command line no longer prints the same line. Expected count of
// such constructs is zero; the obligations are the CLI functions looked at.
func ruleCLISeq(p *Prog, r *Report) {
	fns := p.Representatives(p.RepoReachable(p.CLIRoots()...))
	n := 0
	for _, fn := range fns {
		if fnPkg(fn) != p.Cmd.Types {
			continue
		}
		n++
		key := p.FnKey(fn) + ": sequential"
		why, pos := "", token.NoPos
		for _, blk := range fn.Blocks {
			for _, ins := range blk.Instrs {
				w := ""
				switch x := ins.(type) {
				case *ssa.Go:
					w = "go statement"
				case *ssa.Send:
					w = "channel send"
				case *ssa.Select:
					w = "select"
				case *ssa.MakeChan:
					w = "make(chan)"
				case *ssa.UnOp:
					if x.Op == token.ARROW {
						w = "channel receive"
					}
				}
				if w != "" && why == "" {
					why, pos = w, ins.Pos()
				}
			}
		}
		if why != "" {
			r.Bad("R-CLI-SEQ", key, p.Pos(pos), why+" in CLI code: the order in which results are collected depends on the schedule, so the same command line can print different lines (which invalid argument is named, the order of equal versions)")
		} else {
			r.Ok("R-CLI-SEQ", key, p.FnPos(fn), "no goroutine, channel or select")
		}
	}
	r.Floor("R-CLI-SEQ", 6)
}

func init() {
	register("C15", "", ruleCLISeq)
	register("C19", "", ruleCLISeq)
}

// freshMapResult: g returns (only) a map it has built itself by a literal
func freshMapResult(g *ssa.Function) bool {
	if g.Blocks == nil || g.Signature.Results().Len() != 1 {
		return false
	}
	if _, ok := g.Signature.Results().At(0).Type().Underlying().(*types.Map); !ok {
		return false
	}
	n := 0
	for _, b := range g.Blocks {
		if ret, ok := b.Instrs[len(b.Instrs)-1].(*ssa.Return); ok {
			mk, ok := ret.Results[0].(*ssa.MakeMap)
			if !ok || mk.Parent() != g {
				return false
			}
			n++
		}
	}
	return n > 0
}
