package main

import (
	"fmt"
	"go/constant"
	"go/token"
	"go/types"
	"sort"
	"strings"

	"golang.org/x/tools/go/ssa"
)

// ---- AE: finite-domain abstract evaluator (decision-table extraction) ---------------------
//
// A comparator touches its operands only through comparisons with each other and with
// constants, constant-map lookups, pure derived values (Atoi, MatchString, ToLower, ...) and
// calls to other functions of the same kind. Its behaviour therefore depends only on the
// *order type* of each term: for every term (an access path such as .major, or a derived
// value) the position of each individual's value on the line of the constants the code
// compares it with (equal to a constant, or in a gap between two), and a weak order among
// individuals that share a gap. That domain is finite. The evaluator interprets the SSA over
// this domain; atoms (terms) are assigned on demand, which yields the decision table as a
// tree. Laws are checked on worlds with 1, 2 or 3 individuals.

type avConst struct{ v constant.Value }
type avNil struct{ t types.Type }

// avTerm: an unknown scalar (int, string, bool, rune, pointer nil-ness) of one individual
type avTerm struct {
	key  string
	side int // which individual plays this side in the current run (0 or 1)
	t    types.Type
}

// avRef: a structured value (pointer to struct, struct by value, slice) located at an access
// path rooted at an individual
type avRef struct {
	key  string
	side int
	t    types.Type
}

// avStruct: a struct value built locally from known parts
type avStruct struct {
	t      types.Type
	fields []any
}
type avTuple []any

// avIndex: the index of the generic iteration of the loop under analysis
type avIndex struct{ off int64 }

// avIface: an interface value with a known dynamic payload
type avIface struct{ x any }

// avUnknown: a value the evaluator has no model for; any use is out of fragment
type avUnknown struct{ why string }

// avAddr: address of a local allocation (with a field/element path) or of an abstract location
type avAddr struct {
	alloc *ssa.Alloc
	path  []int  // field indices into the local struct
	ref   *avRef // or: abstract location
	idx   any    // element index for slices (avIndex / avConst) when ref is a sequence
}

// control-flow signals
type needAtom struct {
	key  string
	p, q int // q < 0: position of individual p; else relation between p and q (p < q)
}
type poolMiss struct {
	key string
	c   constant.Value
}
type outOfFragment struct{ why string }

type atomKind int

const (
	akOrder    atomKind = iota // int/string term: positions on the pool line + ranks in gaps
	akBool                     // two constants
	akNil                      // nil / non-nil
	akRel                      // relation-valued (loop / assumed comparator): weak order only
	akPresence                 // presence of the generic position per individual
)

// world: abstract values assigned so far. Atoms are fine-grained and demanded lazily:
//
//	pos["key|p"]   position of individual p on the pool line of term key
//	                (akOrder: 2*i+1 = pool constant i, 2*i = gap i; akBool: 0/1; akNil: 0 nil,
//	                1 non-nil; akPresence: 0 absent, 1 present)
//	rel["key|p|q"] (p<q) order of p and q when they share a gap, or on a relation atom (akRel)
type world struct {
	n     int
	pos   map[string]int
	rel   map[string]int
	order []string
}

func newWorld(n int) *world {
	return &world{n: n, pos: map[string]int{}, rel: map[string]int{}}
}

func (w *world) clone() *world {
	c := &world{n: w.n, pos: make(map[string]int, len(w.pos)+1), rel: make(map[string]int, len(w.rel)+1), order: append([]string{}, w.order...)}
	for k, v := range w.pos {
		c.pos[k] = v
	}
	for k, v := range w.rel {
		c.rel[k] = v
	}
	return c
}

func posKey(key string, p int) string    { return fmt.Sprintf("%s|%d", key, p) }
func relKey(key string, p, q int) string { return fmt.Sprintf("%s|%d|%d", key, p, q) }

func (w *world) describe(pools map[string][]constant.Value, terms map[string]*termInfo) string {
	var sb strings.Builder
	for _, k := range w.order {
		if v, ok := w.pos[k]; ok {
			key := k[:strings.LastIndex(k, "|")]
			ti := terms[key]
			if ti != nil && ti.kind == akOrder {
				if v%2 == 1 && v/2 < len(pools[key]) {
					fmt.Fprintf(&sb, "%s=%s; ", k, pools[key][v/2].ExactString())
				} else {
					fmt.Fprintf(&sb, "%s in gap%d; ", k, v/2)
				}
			} else {
				fmt.Fprintf(&sb, "%s=%d; ", k, v)
			}
		} else if v, ok := w.rel[k]; ok {
			fmt.Fprintf(&sb, "%s:%s; ", k, map[int]string{-1: "<", 0: "=", 1: ">"}[v])
		}
	}
	return sb.String()
}

// weakOrders enumerates all dense rank assignments (weak orders) of n items.
func weakOrders(n int) [][]int {
	if n == 0 {
		return [][]int{{}}
	}
	var out [][]int
	var rec func(i int, cur []int)
	rec = func(i int, cur []int) {
		if i == n {
			used := map[int]bool{}
			mx := 0
			for _, r := range cur {
				used[r] = true
				if r > mx {
					mx = r
				}
			}
			for r := 0; r <= mx; r++ {
				if !used[r] {
					return
				}
			}
			out = append(out, append([]int{}, cur...))
			return
		}
		for r := 0; r < n; r++ {
			rec(i+1, append(cur, r))
		}
	}
	rec(0, nil)
	return out
}

var weakOrderCache = map[int][][]int{}

// relsRealisable: the assigned pairwise relations among the given individuals extend to a weak order.
func relsRealisable(w *world, key string, members []int) bool {
	wos, ok := weakOrderCache[len(members)]
	if !ok {
		wos = weakOrders(len(members))
		weakOrderCache[len(members)] = wos
	}
	for _, wo := range wos {
		good := true
		for a := 0; a < len(members) && good; a++ {
			for b := a + 1; b < len(members); b++ {
				p, q := members[a], members[b]
				sg := 1
				if p > q {
					p, q, sg = q, p, -1
				}
				r, assigned := w.rel[relKey(key, p, q)]
				if !assigned {
					continue
				}
				d := 0
				if wo[a] < wo[b] {
					d = -1
				} else if wo[a] > wo[b] {
					d = 1
				}
				if d != sg*r {
					good = false
					break
				}
			}
		}
		if good {
			return true
		}
	}
	return false
}

// inhabitedPos: positions of the pool line that can hold a value
func inhabitedPos(pool []constant.Value, typ types.Type, isLen bool, ordered bool) []int {
	var out []int
	if !ordered && len(pool) > 0 {
		// the term is only tested for equality with its constants: all gaps are one class
		for i := range pool {
			out = append(out, 2*i+1)
		}
		return append(out, 2*len(pool))
	}
	np := 2*len(pool) + 1
	for p := 0; p < np; p++ {
		if p%2 == 1 {
			out = append(out, p)
			continue
		}
		g := p / 2
		if isStringType(typ) && g == 0 && len(pool) > 0 && pool[0].Kind() == constant.String && constant.StringVal(pool[0]) == "" {
			continue // nothing sorts below ""
		}
		if !isStringType(typ) && g > 0 && g < len(pool) {
			a, ok1 := constant.Int64Val(constant.ToInt(pool[g-1]))
			b, ok2 := constant.Int64Val(constant.ToInt(pool[g]))
			if ok1 && ok2 && b == a+1 {
				continue // no integer between consecutive constants
			}
		}
		if isLen && g < len(pool) {
			if b, ok := constant.Int64Val(constant.ToInt(pool[g])); ok && b <= 0 {
				continue // lengths are non-negative
			}
		}
		out = append(out, p)
	}
	return out
}

func isStringType(t types.Type) bool {
	if t == nil {
		return false
	}
	b, ok := t.Underlying().(*types.Basic)
	return ok && b.Info()&types.IsString != 0
}

func isBoolType(t types.Type) bool {
	b, ok := t.Underlying().(*types.Basic)
	return ok && b.Kind() == types.Bool
}

func constLess(a, b constant.Value) bool {
	if a.Kind() == constant.String && b.Kind() == constant.String {
		return constant.StringVal(a) < constant.StringVal(b)
	}
	if a.Kind() == constant.Bool && b.Kind() == constant.Bool {
		return !constant.BoolVal(a) && constant.BoolVal(b) // only used to tell booleans apart
	}
	return constant.Compare(a, token.LSS, b)
}

func constEq(a, b constant.Value) bool {
	if a.Kind() != b.Kind() {
		if a.Kind() == constant.String || b.Kind() == constant.String || a.Kind() == constant.Bool || b.Kind() == constant.Bool {
			return false
		}
	}
	return constant.Compare(a, token.EQL, b)
}

func poolIndex(pool []constant.Value, c constant.Value) int {
	for i, p := range pool {
		if constEq(p, c) {
			return i
		}
	}
	return -1
}

func poolInsert(pool []constant.Value, c constant.Value) []constant.Value {
	if poolIndex(pool, c) >= 0 {
		return pool
	}
	pool = append(pool, c)
	sort.SliceStable(pool, func(i, j int) bool { return constLess(pool[i], pool[j]) })
	return pool
}
