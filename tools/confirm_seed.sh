#!/bin/bash
# tools/confirm_seed.sh <seed dir with patch.diff + demo_test.go|demo/main.go> [worktree]
# Confirms in a scratch worktree of /repo: patch applies, builds, vets, full suite passes with
# the patch; demonstration fails with the patch and passes without. Prints CONFIRMED or why not.
set -u
D="$(readlink -f "$1")"; WT="${2:-/tmp/wt/confirm.$$}"
export GOFLAGS=-mod=mod GOPROXY=off
own=0
if [ ! -d "$WT" ]; then git -C /repo worktree add -q --detach "$WT" HEAD || exit 9; own=1; fi
cleanup() { git -C "$WT" checkout -q -- . 2>/dev/null; git -C "$WT" clean -fdq 2>/dev/null; [ $own = 1 ] && git -C /repo worktree remove --force "$WT"; }
trap cleanup EXIT
cd "$WT" && git checkout -q -- . && git clean -fdq
git apply --whitespace=nowarn "$D/patch.diff" || { echo "NOT-CONFIRMED: patch does not apply"; exit 1; }
go build ./... >/dev/null 2>&1 || { echo "NOT-CONFIRMED: does not build"; exit 1; }
go vet ./... >/dev/null 2>&1 || { echo "NOT-CONFIRMED: go vet fails"; exit 1; }
go test -vet=off -count=1 ./... >/tmp/confirm.$$.log 2>&1 || { echo "NOT-CONFIRMED: existing suite fails with the patch"; tail -5 /tmp/confirm.$$.log; rm -f /tmp/confirm.$$.log; exit 1; }
rm -f /tmp/confirm.$$.log
# place the demo
if [ -f "$D/demo_test.go" ]; then
  dest=$(grep -m1 -oE 'copy to [A-Za-z0-9_./-]+' "$D/demo_test.go" | awk '{print $3}')
  [ -z "$dest" ] && { echo "NOT-CONFIRMED: demo has no 'copy to <dir>' header"; exit 1; }
  dest="${dest%/}"
  cp "$D/demo_test.go" "$WT/$dest/zz_seed_demo_test.go"
  runname=$(grep -oE '^func (Test[A-Za-z0-9_]+)' "$D/demo_test.go" | awk '{print $2}' | paste -sd'|')
  RACE=""; grep -q -- "-race" "$D/meta.json" 2>/dev/null && RACE="-race"
  demo() { (cd "$WT" && timeout 300 go test $RACE -vet=off -count=1 -run "^($runname)\$" "./$dest/" >/dev/null 2>&1); }
else
  mkdir -p "$WT/zz_seed_demo" && cp "$D"/demo/*.go "$WT/zz_seed_demo/"
  demo() { (cd "$WT" && timeout 300 go run ./zz_seed_demo >/dev/null 2>&1); }
fi
if demo; then echo "NOT-CONFIRMED: demonstration passes WITH the patch"; exit 1; fi
git apply -R --whitespace=nowarn "$D/patch.diff" || { echo "NOT-CONFIRMED: cannot revert"; exit 1; }
if demo; then echo "CONFIRMED"; exit 0; else echo "NOT-CONFIRMED: demonstration fails WITHOUT the patch"; exit 1; fi
