#!/usr/bin/env python3
# tools/seed_table.py: the markdown table of DESIGN.md 11.6 from seeded/*/meta.json
import json,os,glob
rows=[]
for d in sorted(glob.glob('/verif/seeded/*/')):
    i=os.path.basename(d.rstrip('/'))
    try: m=json.load(open(d+'meta.json'))
    except Exception: continue
    s=(m.get('summary') or '').replace('|','/').replace('\n',' ')
    own='yes' if m.get('detected_by_own_property_check') else '**no**'
    others=[c for c in m.get('checks_that_fire',[]) if c!=m.get('property')]
    rows.append('| %s | %s | %s | %s |'%(i,s[:110],own,' '.join(others) or '—'))
print('| seed | change (first sentence of the sub-agent\'s summary) | own | other checks that fire |')
print('|---|---|---|---|')
print('\n'.join(rows))
print('\n%d seeds'%len(rows))
