#!/bin/bash
# tools/seed_matrix.sh [seed-id ...]: run every claimed check on a scratch copy of /repo with each seeded
# change applied; record whether the seed's own property check detects it and which other checks fire
# (with their first report line, for triage). Writes seeded/<id>/meta.json.
# Scratch copies live under /tmp and are removed. Seeds run in parallel with a private copy of the binary.
set -u
HERE="$(cd "$(dirname "$0")/.." && pwd)"
cd "$HERE"
if [ "${1:-}" = "--one" ]; then
  id="$2"; BIN="$3"; claimed="$4"
  d="seeded/$id"; [ -f "$d/patch.diff" ] || exit 0
  prop="${id%%-*}"
  T="$(mktemp -d /tmp/gv-seed.XXXXXX)"
  mkdir -p "$T/repo"; rsync -a --exclude .git /repo/ "$T/repo/"
  if ! (cd "$T/repo" && git init -q . 2>/dev/null && git apply --whitespace=nowarn "$HERE/$d/patch.diff" 2>/dev/null); then
    echo "$id: patch no longer applies to the current /repo"; rm -rf "$T"; exit 0
  fi
  fired=""; own="no"; detail=""; others=""
  for P in $claimed; do
    mkdir -p "$T/v_$P"
    out="$("$BIN" -repo "$T/repo" -verif "$T/v_$P" -known "$HERE/known_findings.json" -prop "$P" -tier quick 2>&1)"; rc=$?
    if [ $rc -ne 0 ]; then
      fired="$fired $P"
      first="$(echo "$out" | grep -E '^(VIOLATED|UNDECIDED)' | head -3 | sed "s#$T/repo/##g" | cut -c1-400)"
      if [ "$P" = "$prop" ]; then own="yes"; detail="$first"; else others="$others
[$P] $(echo "$first" | head -1)"; fi
    fi
  done
  rm -rf "$T"
  python3 - "$d" "$prop" "$own" "$fired" "$detail" "$others" <<'PY'
import json,sys,os
d,prop,own,fired,detail,others=sys.argv[1:7]
agent={}
p=os.path.join(d,'meta.agent.json')
if os.path.exists(p):
    try: agent=json.load(open(p))
    except Exception: agent={}
meta={"property":prop,"summary":agent.get("summary",""),"needs":agent.get("needs",""),"files":agent.get("files",[]),
 "demonstration":"demo_test.go.txt (copy into the package named in its header as a _test.go file) or demo/main.go",
 "confirmed":"tools/confirm_seed.sh in a scratch worktree: patch applies, go build/vet ok, full suite passes with the patch, demonstration fails with the patch and passes without",
 "what_i_ran":"tools/seed_matrix.sh %s"%os.path.basename(d),
 "detected_by_own_property_check":own=="yes","checks_that_fire":fired.split(),"report":detail.split("\n") if detail else [],
 "other_checks_first_report":[l for l in others.split("\n") if l.strip()]}
json.dump(meta,open(os.path.join(d,'meta.json'),'w'),indent=1)
print(os.path.basename(d),"own:",own,"fired:",fired)
PY
  exit 0
fi
ids=("$@"); [ ${#ids[@]} -eq 0 ] && ids=($(ls seeded))
claimed=$(python3 -c "import json;print(' '.join(c['property_id'] for c in json.load(open('MANIFEST.json'))['checks']))")
BIN="$(mktemp /tmp/gvcheck-matrix.XXXXXX)"; cp bin/gvcheck "$BIN"; chmod +x "$BIN"
printf '%s\n' "${ids[@]}" | xargs -P 5 -I{} "$0" --one {} "$BIN" "$claimed" | sort
rm -f "$BIN"
