#!/bin/bash
# tools/seed_matrix.sh [seed-id ...]: run the claimed check of each seeded change's property (and report
# which other claimed checks also fire) on a scratch copy of /repo with the change applied.
# Writes seeded/<id>/meta.json. Scratch copies live under /tmp and are removed.
set -u
HERE="$(cd "$(dirname "$0")/.." && pwd)"
cd "$HERE"
ids=("$@"); [ ${#ids[@]} -eq 0 ] && ids=($(ls seeded))
claimed=$(python3 -c "import json;print(' '.join(c['property_id'] for c in json.load(open('MANIFEST.json'))['checks']))")
for id in "${ids[@]}"; do
  d="seeded/$id"; [ -f "$d/patch.diff" ] || continue
  prop="${id%%-*}"
  T="$(mktemp -d /tmp/gv-seed.XXXXXX)"
  mkdir -p "$T/repo"; rsync -a --exclude .git /repo/ "$T/repo/"
  if ! (cd "$T/repo" && git init -q . 2>/dev/null && git apply --whitespace=nowarn "$HERE/$d/patch.diff" 2>/dev/null); then
    echo "$id: patch no longer applies to the current /repo"; rm -rf "$T"; continue
  fi
  fired=""; own="no"; detail=""
  for P in $claimed; do
    mkdir -p "$T/v_$P"
    out="$("$HERE/bin/gvcheck" -repo "$T/repo" -verif "$T/v_$P" -known "$HERE/known_findings.json" -prop "$P" -tier quick 2>&1)"; rc=$?
    if [ $rc -ne 0 ]; then
      fired="$fired $P"
      if [ "$P" = "$prop" ]; then own="yes"; detail="$(echo "$out" | grep -E '^(VIOLATED|UNDECIDED)' | head -3 | sed "s#$T/repo/##g" | cut -c1-400)"; fi
    fi
  done
  rm -rf "$T"
  python3 - "$d" "$prop" "$own" "$fired" "$detail" <<'PY'
import json,sys,os,datetime
d,prop,own,fired,detail=sys.argv[1:6]
agent={}
p=os.path.join(d,'meta.agent.json')
if os.path.exists(p):
    try: agent=json.load(open(p))
    except Exception: agent={}
meta={"property":prop,"summary":agent.get("summary",""),"needs":agent.get("needs",""),"files":agent.get("files",[]),
 "demonstration":"demo_test.go.txt (copy into the package named in its header as a _test.go file) or demo/main.go",
 "confirmed":"tools/confirm_seed.sh in a scratch worktree: patch applies, go build/vet ok, full suite passes with the patch, demonstration fails with the patch and passes without",
 "what_i_ran":"tools/seed_matrix.sh %s"%os.path.basename(d),
 "detected_by_own_property_check":own=="yes","checks_that_fire":fired.split(),"report":detail.split("\n") if detail else []}
json.dump(meta,open(os.path.join(d,'meta.json'),'w'),indent=1)
print(os.path.basename(d),"own:",own,"fired:",fired)
PY
done
