#!/bin/bash
# tools/benign_matrix.sh <dir>: <dir>/<n>/patch.diff are behaviour-preserving changes. Run every claimed
# check on a scratch copy of /repo with each applied; any check that fires is a false alarm to triage.
# Prints one line per patch; details of the first reports go to <dir>/<n>/alarms.txt.
set -u
HERE="$(cd "$(dirname "$0")/.." && pwd)"
cd "$HERE"
if [ "${1:-}" = "--one" ]; then
  pd="$2"; BIN="$3"; claimed="$4"
  [ -f "$pd/patch.diff" ] || exit 0
  T="$(mktemp -d /tmp/gv-benign.XXXXXX)"
  mkdir -p "$T/repo"; rsync -a --exclude .git /repo/ "$T/repo/"
  if ! (cd "$T/repo" && git init -q . 2>/dev/null && git apply --whitespace=nowarn "$pd/patch.diff" 2>/dev/null); then
    echo "$pd: patch does not apply"; rm -rf "$T"; exit 0
  fi
  fired=""; : > "$pd/alarms.txt"
  for P in $claimed; do
    mkdir -p "$T/v_$P"
    out="$("$BIN" -repo "$T/repo" -verif "$T/v_$P" -known "$HERE/known_findings.json" -prop "$P" -tier quick 2>&1)"; rc=$?
    if [ $rc -ne 0 ]; then
      fired="$fired $P"
      { echo "[$P]"; echo "$out" | grep -E '^(VIOLATED|UNDECIDED)' | head -4 | sed "s#$T/repo/##g" | cut -c1-500; } >> "$pd/alarms.txt"
    fi
  done
  rm -rf "$T"
  echo "$pd fired:${fired:- none}"
  exit 0
fi
D="$(readlink -f "$1")"
claimed=$(python3 -c "import json;print(' '.join(c['property_id'] for c in json.load(open('MANIFEST.json'))['checks']))")
BIN="$(mktemp /tmp/gvcheck-matrix.XXXXXX)"; cp bin/gvcheck "$BIN"; chmod +x "$BIN"
ls -d "$D"/*/ | sed 's#/$##' | xargs -P 5 -I{} "$0" --one {} "$BIN" "$claimed" | sort
rm -f "$BIN"
