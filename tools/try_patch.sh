#!/bin/bash
# tools/try_patch.sh <patch.diff> <Cxx> [more props]: apply a patch to a scratch copy of /repo
# (outside /repo and /verif), run the checker on it, remove the copy. Exit: checker's exit code.
set -u
HERE="$(cd "$(dirname "$0")/.." && pwd)"
PATCH="$(readlink -f "$1")"; shift
export GOFLAGS=-mod=mod GOPROXY=off
T="$(mktemp -d /tmp/gv-variant.XXXXXX)"
trap 'rm -rf "$T"' EXIT
mkdir -p "$T/repo" "$T/verif"
rsync -a --exclude .git /repo/ "$T/repo/"
(cd "$T/repo" && git init -q . 2>/dev/null && git apply --whitespace=nowarn "$PATCH") || { echo "patch does not apply"; exit 4; }
rc=0
for P in "$@"; do
  "$HERE/bin/gvcheck" -repo "$T/repo" -verif "$T/verif" -known "$HERE/known_findings.json" -prop "$P" -tier quick 2>&1 | grep -vE '^\s+(R-|note)' | sed "s#$T/repo/##g"
  c=${PIPESTATUS[0]}; [ $c -ne 0 ] && rc=$c
done
exit $rc
