#!/usr/bin/env python3
# Regenerates MANIFEST.json from the table below. Run from /verif.
import json
props=[json.loads(l) for l in open('properties.jsonl')]
TRUST="Trusted base: the Go type checker/SSA builder of x/tools v0.29.0; the std functions on the allow-lists behave as documented; exported operations receive values produced by the repo's constructors."
claimed={
'C10':dict(technique="static analysis: structural matching of the two-cursor run scanner on SSA; abstract position table of the non-digit comparator and abstract table of the digit comparator (AE); regexp analysis of the upstream/revision split; stage-order queries on Compare",
 text="Decided: Compare orders by epoch, then upstream, then revision, a missing revision ranking as \"0\"; the version pattern splits at the last hyphen (the revision group cannot contain '-'); the scanner takes, on both sides alike, a maximal non-digit run and then a maximal digit run delimited by unicode.IsDigit only, hands (a-run, b-run) to the non-digit and then the digit comparator and returns their first non-zero result; every abstract position world of the non-digit comparator orders '~' < end of run < letters < all other characters and then by character code, and the function is exactly that loop; the digit comparator orders zero-stripped runs by length and then as text in every abstract world (integer order for any length, empty run = 0).",
 note=TRUST+" Oracle: dpkg's rules as the property states them. Not decided: that the scanner's slices are exactly the delimited runs (bounds come from the cursor loops; index arithmetic is checked for safety by C06, not for equality with the run); acceptance grammar.",
 design="DESIGN.md 5 (C10)"),
'C12':dict(technique="static analysis: abstract position table of maven's Compare (AE) against ComparableVersion's item rules; tabulation of the normaliser and the null predicate; structural rules on tokenizer and trimming",
 text="Decided: every abstract position world of Compare's zip loop agrees with the item rules of the statement (numbers by value; a number above every qualifier; alpha<beta<milestone<rc<snapshot<release<sp<other qualifiers alphabetically; a missing item compared as 0 / as the release qualifier) and Compare is nothing but that loop; the normaliser looks up the lower-cased token with exactly the alias table a/b/m/cr/ga/final/release and every stored element passes through it; trailing null items (number 0, release qualifier) are trimmed by a loop applied once to the complete list. Structural necessary condition for the '.'/'-' clause: the tokenizer must run different code for the two separators - it does not: known finding.",
 note=TRUST+" Oracle: the rules of the property statement, not Maven's class. Not decided: tokenisation at digit/letter transitions; the 'aliases only when followed by a digit' clause (bare single-letter aliases are not claimed); nested-list semantics beyond the structural separator clause.",
 design="DESIGN.md 5 (C12)"),
'C14':dict(technique="static analysis: abstract position tables of alpine's numeric and suffix-list comparators and stage-order queries on Compare's decision table (AE), against the ranking in the property statement",
 text="Decided on the abstract decision tables: Compare consults numeric components, then the letter (none first, then alphabetical), then the suffix list, then -rN, each deciding whatever the later parts are; every abstract position world of the suffix-list comparator agrees with alpha<beta<pre<rc<(none)<cvs<svn<git<hg<p, then the suffix number, and an additional suffix makes its version older (pre-release) or newer (post-release); the comparator's result is exactly the position-wise loop's (no fast path or post-adjustment); numeric components without leading zeros compare by integer value at the first and at later positions.",
 note=TRUST+" Oracle: the ranking and rules of the property statement, not apk-tools. Not decided: differing component counts, leading-zero components, ~hash parts (not claimed by the property); suffix names outside the nine known ones; that numericComponent.value is the integer of the component text (R-NUMPARSE of C03 covers the parse).",
 design="DESIGN.md 5 (C14)"),
'C09':dict(technique="static analysis: abstract decision table of pypi's Compare (AE) compared leaf by leaf with the PEP 440 sort key over the same abstract atoms; regexp-group provenance",
 text="pypi's Compare is entirely inside the abstract evaluator's fragment. Decided: epoch decides first and the release next, whatever the later segments; release segments compare as integers with a missing segment equal to 0 (position table of the proven zip loop); with epoch and release equal, every leaf of Compare's abstract decision table gives the sign of the PEP 440 key (dev-of-bare-release < a < b < rc < final < post; dev before its phase; numbers within a phase) for every one of the 1224 pair descriptions compatible with the atoms the code consulted; every spelling of the pattern's phase alternation is ranked. The local-label clause is decided structurally (is the '+' group's field read from Compare) and fails today: known finding.",
 note=TRUST+" Oracle: the ordering rules of the property statement as a key over abstract atoms, not the packaging library. Not decided: the acceptance grammar and separator normalisation; internal order of local labels.",
 design="DESIGN.md 5 (C09)"),
'C08':dict(technique="static analysis: abstract decision tables of the six SemVer comparators (AE) checked row by row against SemVer 2.0.0 section 11; regexp-group provenance; sibling cross-check",
 text="Decided on the abstract decision table of each of semver/npm/cargo/hex/golang/nuget: major, minor, patch (and NuGet's revision) decide in that order before any later part (all later parts free); a non-empty pre-release sorts below the release; the pre-release is compared by a proven position-wise loop over its dot-separated identifiers whose every abstract position world agrees with the rows of section 11.4 (missing<present, numeric by integer value, numeric<alphanumeric, alphanumeric by text); an identifier is classified numeric only under an all-digits test (never by the conversion's error result alone); the field fed by the capture group after '+' is read by nothing reachable from Compare.",
 note=TRUST+" Not decided: the strict grammar clause of the semver ecosystem (leading zeros, empty identifiers) — planned for the constructor tabulation; all-digit identifiers beyond 64 bits; that Go pseudo-version spellings are reconstructed faithfully (the text after the first '-' of the matched string is used).",
 design="DESIGN.md 5 (C08)"),
'C03':dict(technique="static analysis: field provenance (regexp capture group -> Version field -> Compare) + abstract-evaluator queries on Compare's decision table; regexp-shape rule for kind flags",
 text="Decided structurally for the regexp-parsed semver-shaped ecosystems: each leading numeric component is a digits-only capture group parsed by Atoi/ParseInt/big.Int into a numeric field (never compared as text); Compare orders versions that differ in exactly one such field by that field, most significant first (queries on the abstract decision table with all other fields tied); a version carrying a pre-release marker compares below the same version without it, and post markers above; kind flags that partition Compare are set only under patterns that cannot match plain dotted-numeric text (github's documented four-digit date shape excepted).",
 note=TRUST+" Not decided: numeric order inside the tokeniser/scanner ecosystems (alpine, alpm, conan, cran, gem, maven, debian, rpm: covered by C10-C14 where claimed); the set of accepted marker spellings at parse time (e.g. case folding of composer stabilities); composer isDev kind flag (set without a dominating match).",
 design="DESIGN.md 5 (C03)"),
'C07':dict(technique="static analysis: structural matching of the sort pipeline on SSA; order laws by re-running R-PREORDER/R-SIGN",
 text="The multiset-preservation and no-partial-output clauses are structural facts of cmd.sort/runEcosystem (one parse per argument, one String() per sorted element, nil result with an error); the ordering clauses reduce to Compare being a total preorder with range {-1,0,1}, which is decided by the abstract evaluator for every ecosystem whose comparator is in fragment.",
 note=TRUST+" slices.SortFunc is a correct comparison sort. Not decided: order laws for the scanner ecosystems beyond C01's coverage.",
 design="DESIGN.md 5 (C07)"),
'C20':dict(technique="static analysis: taint of the probe through Contains + key-field extraction from Compare's abstract decision table; re-uses R-PREORDER",
 text="The first clause is decided structurally: the probe is observed only through Compare or fields on which equal-comparing versions necessarily agree (computed from the decision table), or through Compare's own element comparator; with C02's operator table and Compare being a total preorder (R-PREORDER, re-run), comparator-only conjunctions are convex. Sufficient-style rule; named exceptions pypi '===' and gem '~>'.",
 note=TRUST+" Not decided: convexity of the field-equality shorthands (cargo/conan/gem/composer caret, tilde, pessimistic).",
 design="DESIGN.md 5 (C20)"),
'C16':dict(technique="static analysis: value-flow rules on SSA for the VERS normalisation pipeline",
 text="Invariance under reordering, spacing and repetition comes from one mechanism; the rules decide that every consumer of constraints is fed through it: raw list only to the normaliser, whitespace removed before any use, de-duplication keyed on the cleaned text, sort before extraction with a version-only comparator. Given C01 for the scheme, the normalised list is unique for pairwise non-equivalent versions.",
 note=TRUST+" Not decided: invariance of which error is reported first; relies on C01 for the scheme's order.",
 design="DESIGN.md 5 (C16)"),
'C17':dict(technique="static analysis: dispatch-table extraction, guard/dominance rules, error-propagation rule on SSA",
 text="Scheme routing is decided exactly from the dispatch table and the Ecosystem types each scheme function creates; each syntactic rejection condition of the statement is shown to guard acceptance; no repo error is dropped in vers/cmd; errors imply false.",
 note=TRUST+" Not decided: that every single-point corruption of an arbitrary valid range trips one of the conditions (behavioural).",
 design="DESIGN.md 5 (C17)"),
'C18':dict(technique="static analysis: value-flow (taint) rules on SSA, interprocedural",
 text="All three clauses are flow facts decided for all 40 constructors and String() methods: the stored text is the parameter through nothing but TrimSpace; the untrimmed parameter reaches only TrimSpace, the text field, an emptiness test and messages; possibly-untrimmed text is never read from Compare's operands or Contains' probe. Sufficient-style rules with the accepted idioms enumerated; any other use is reported with its position.",
 note=TRUST+" Re-parse stability additionally relies on C19 (determinism). Internal whitespace handling inside range strings is not part of this property.",
 design="DESIGN.md 5 (C18)"),
'C02':dict(technique="static analysis: abstract tabulation of each matching predicate over (operator, sign of Compare); table/regexp prefix-safety; parse-side operator domains vs match-side cases",
 text="The operator semantics of all 20 ecosystems are decided exactly: the matching predicate is tabulated by the abstract evaluator over the operator strings it tests and the sign of Compare(probe, bound) and compared with the fixed operator table, orientation included; operator tables and ordered regexp alternations are prefix-safe; every operator the parser can store (computed from its construction sites) has a case. This covers every bound/probe pair at once because the predicate touches them only through Compare.",
 note=TRUST+" Not decided: tokenisation of exotic bounds, deferred bound validation (npm, golang, gem, alpine, pypi re-parse the bound in matches), AND/OR quantifier shape (planned R-QUANT), pre-operator routing (npm/composer 'x').",
 design="DESIGN.md 5 (C02)"),
'C01':dict(technique="static analysis: finite-domain abstract evaluation of each Compare's decision table (order-type abstraction), value-set analysis, structural sibling rule",
 text="Reflexivity, antisymmetry, transitivity and result range are decided exhaustively on the finite order-type abstraction of every ecosystem's Compare (abstract interpretation of the SSA: operands touched only through comparisons, constant tables and pure derived values; zip loops summarised through a position-wise total-preorder check; callee comparators proven separately). Laws hold for all inputs whose behaviour the abstraction covers; scanner stages (debian/rpm/alpm strings, alpine numeric arrays) are outside the fragment and the chains above them are conditional. Genuine defects found are fixed in /repo or listed in known_findings.json.",
 note=TRUST+" Assumes C19 (pure helpers). Not decided: order laws inside the character scanners; spurious abstract worlds are excluded only by construction-site value domains (regexp alternations, normaliser images).",
 design="DESIGN.md 4.1, 5 (C01), 7"),
'C15':dict(technique="static analysis: structural matching of the CLI's registry, argument flow, format strings and write paths on SSA",
 text="Every clause of the CLI property is structural: registry keys vs each package's Name() constant and the Ecosystem type passed; constructor/argument pairing in compare/contains/versContains; success output built only from %d/%t/%q; exactly one \"%s\\n\" write on every path through run; exit codes. Checked on the resolved program for all 20 registrations at once.",
 note=TRUST+" Equality of CLI output with library results follows from the argument/return flow being direct; the library itself is covered by the other properties.",
 design="DESIGN.md 5 (C15)"),
'C06':dict(technique="static analysis: SSA bounds prover (difference constraints + Houdini invariants), access-path nil analysis, loop ranking classes, return-shape rules",
 text="Every panic-capable instruction (index, slice, dereference, unchecked assertion, division, make, MustCompile) in every function reachable from the public operations, vers.Contains and the CLI is an obligation discharged by a prover over SSA or reported with file:line; every loop is placed in a class with a ranking argument; every return of every (*T,error)/(bool,error)/(string,int) function has the required shape. A sound over-approximation in intent (undischarged = alarm); labelled 'other' because the soundness argument is DESIGN.md.",
 note=TRUST+" Not decided: the 'at most quadratic time' clause (R-TERM proves termination, not a cost bound). regexp is RE2 (linear).",
 design="DESIGN.md 4.4, 4.5, 5 (C06)"),
'C19':dict(technique="static effect analysis over SSA + VTA call graph (origin tracking of every write, callee allow-list)",
 text="Effect analysis: every Store/MapUpdate/append/in-place mutator in every function reachable from the library's public operations targets activation-fresh memory; globals written only in init; all external callees on a reviewed pure/concurrency-safe allow-list; no goroutines/channels/map iteration. Decides purity and race-freedom for all schedules and histories at once; labelled 'other' because the soundness argument is DESIGN.md, not a machine-checked artefact.",
 note=TRUST+" regexp matching methods are documented safe for concurrent use; package init happens-before use.",
 design="DESIGN.md 4.5 and 5 (C19)"),
}
NA={'C13':"agreement with Gem::Version over all accepted strings is input/output behaviour of a tokeniser whose segment model differs from the reference's; no structural clause is a necessary condition of the property, so static analysis has nothing sound to decide (DESIGN.md section 5, C13)"}
checks=[];na=[]
for p in props:
    i=p['id']
    if i in claimed:
        c=claimed[i]
        checks.append({"property_id":i,"quick_cmd":"./run.sh %s quick"%i,"thorough_cmd":"./run.sh %s thorough"%i,
          "evidence_file":"/verif/evidence/%s.json"%i,"replay_cmd_template":"./run.sh replay {path}","engine":"gvcheck",
          "level_claimed":{"category":"other","text":c['text'],"design_ref":c['design']},"level_note":c['note'],"technique":c['technique']})
    else:
        na.append({"property_id":i,"reason":NA.get(i,"check under construction in this build phase (DESIGN.md section 8 lists the planned rules); not yet claimed")})
m={"version":1,"setup_cmd":"./run.sh build",
 "hooks":{"guard":"verif","enable":"none needed: static analysis reads /repo's source; the thorough tier also loads the tree with -tags verif","baseline_off_cmd":"cd /repo && GOFLAGS=-mod=mod GOPROXY=off go test -vet=off -count=1 ./...","source_commits":[],"add_only":True},
 "engines":[{"name":"gvcheck","path":"/verif/checker","serves_properties":sorted(claimed),"kind_free_text":"repository-specific static analyser over go/packages + go/ssa + VTA call graph (x/tools v0.29.0); nothing under /repo is executed"}],
 "checks":checks,"not_applicable":na,
 "notes":"Static analysis only. ./run.sh <Cxx> quick|thorough; known findings in known_findings.json; see DESIGN.md."}
json.dump(m,open('MANIFEST.json','w'),indent=1)
print(len(checks),'claimed',len(na),'not applicable')
