#!/bin/bash
# ./run.sh <Cxx> quick|thorough      decide one property on /repo's current working tree
# ./run.sh replay <file>             re-evaluate one recorded obligation
# ./run.sh build                     (re)build the checker
set -u
HERE="$(cd "$(dirname "$0")" && pwd)"
export GOFLAGS=-mod=mod GOPROXY=off
unset GOWORK GOTOOLCHAIN GOSUMDB 2>/dev/null
REPO="${VERIF_REPO:-/repo}"
BIN="$HERE/bin/gvcheck"

build() {
  mkdir -p "$HERE/bin"
  if [ ! -x "$BIN" ] || [ -n "$(find "$HERE/checker" -newer "$BIN" -name '*.go' -print -quit 2>/dev/null)" ] || [ "$HERE/checker/go.mod" -nt "$BIN" ]; then
    (cd "$HERE/checker" && go build -o "$BIN" .) || { echo "checker build failed" >&2; exit 3; }
  fi
}

case "${1:-}" in
  build) rm -f "$BIN"; build; exit 0 ;;
  replay) build; exec "$BIN" -repo "$REPO" -verif "$HERE" -replay "$2" ;;
  C[0-9][0-9]) ;;
  *) echo "usage: $0 <Cxx> quick|thorough | replay <file> | build" >&2; exit 3 ;;
esac
PROP="$1"; TIER="${2:-${VERIF_TIER:-quick}}"
build
if [ "$TIER" = quick ]; then
  exec "$BIN" -repo "$REPO" -verif "$HERE" -prop "$PROP" -tier quick
fi
# thorough: default configuration (writes the evidence), then the same rules with 32-bit int
# (GOARCH=386) and with the verif build tag, then the checker self-test for this property.
rc=0
TMPV="$(mktemp -d /tmp/gv-thorough.XXXXXX)"
trap 'rm -rf "$TMPV"' EXIT
for cfg in "-goarch 386" "-tags verif"; do
  out="$("$BIN" -repo "$REPO" -verif "$TMPV" -known "$HERE/known_findings.json" -prop "$PROP" -tier thorough $cfg 2>&1)"; c=$?
  echo "== configuration [$cfg]: exit $c"
  echo "$out" | grep -E '^(VIOLATION|KNOWN-FINDING|VIOLATED|UNDECIDED|property)' | sed "s#$TMPV#$HERE#g"
  if [ $c -ne 0 ]; then
    # keep replay files
    mkdir -p "$HERE/replay"; cp -f "$TMPV"/replay/* "$HERE/replay/" 2>/dev/null
    rc=1
  fi
done
if [ -x "$HERE/selftest/run_selftest.sh" ]; then
  "$HERE/selftest/run_selftest.sh" "$PROP"; c=$?
  if [ $c -ne 0 ]; then echo "CHECKER-SELFTEST-FAILED property=$PROP"; [ $rc -eq 0 ] && rc=2; fi
fi
"$BIN" -repo "$REPO" -verif "$HERE" -prop "$PROP" -tier thorough; c=$?
[ $c -ne 0 ] && rc=$c
exit $rc
