#!/bin/bash
# selftest/run_selftest.sh <Cxx>: the checker is tested both ways for one property.
#  - every mutant listed for the property in index.tsv (reverts of the repairs made to the repository,
#    grammar and quantifier mutants) and every confirmed seeded change under ../seeded/<Cxx>-* that is
#    recorded as detected must make the property's check fail;
#  - every benign variant listed for the property must leave it silent.
# Each variant is applied to a scratch copy of /repo under /tmp, which is removed afterwards. Variants run
# six at a time. Exit 0 if all expectations hold, 1 otherwise (a selftest failure is a failure of the check).
set -u
HERE="$(cd "$(dirname "$0")/.." && pwd)"
if [ "${1:-}" = "--one" ]; then
  PROP="$2"; diff="$3"; expect="$4"; label="$5"
  BIN="$HERE/bin/gvcheck"
  T="$(mktemp -d /tmp/gv-selftest.XXXXXX)"
  mkdir -p "$T/repo" "$T/verif"; rsync -a --exclude .git "${VERIF_REPO:-/repo}/" "$T/repo/"
  if ! (cd "$T/repo" && git init -q . 2>/dev/null && git apply --whitespace=nowarn "$diff" 2>/dev/null); then
    echo "selftest $PROP: SKIP $label (does not apply to the current tree)"; rm -rf "$T"; exit 0
  fi
  "$BIN" -repo "$T/repo" -verif "$T/verif" -known "$HERE/known_findings.json" -prop "$PROP" -tier quick >"$T/out" 2>&1; rc=$?
  res=0
  if [ "$expect" = fire ] && [ $rc -eq 0 ]; then echo "selftest $PROP: MISSED $label (check stayed silent on a breaking change)"; res=1
  elif [ "$expect" = silent ] && [ $rc -ne 0 ]; then echo "selftest $PROP: FALSE ALARM on $label"; grep -E '^(VIOLATED|UNDECIDED)' "$T/out" | head -2 | cut -c1-300; res=1
  else echo "selftest $PROP: ok $label ($expect)"; fi
  rm -rf "$T"
  exit $res
fi
PROP="$1"
LIST="$(mktemp /tmp/gv-selftest-list.XXXXXX)"
while IFS=$'\t' read -r file kind props what; do
  case ",$props," in *",$PROP,"*) ;; *) continue;; esac
  if [ "$kind" = mutant ]; then printf '%s\t%s\t%s\n' "$HERE/selftest/$file" fire "$file: $what"; else printf '%s\t%s\t%s\n' "$HERE/selftest/$file" silent "$file: $what"; fi
done < "$HERE/selftest/index.tsv" > "$LIST"
for d in "$HERE"/seeded/"$PROP"-*; do
  [ -f "$d/patch.diff" ] || continue
  # only seeds recorded as detected by their own check are expectations; the others are documented misses
  if python3 -c "import json,sys; sys.exit(0 if json.load(open('$d/meta.json')).get('detected_by_own_property_check') else 1)" 2>/dev/null; then
    printf '%s\t%s\t%s\n' "$d/patch.diff" fire "seeded/$(basename "$d")" >> "$LIST"
  fi
done
n=$(wc -l < "$LIST")
OUT="$(mktemp /tmp/gv-selftest-out.XXXXXX)"
tr '\t' '\n' < "$LIST" | xargs -d '\n' -n 3 -P 6 "$0" --one "$PROP" > "$OUT" 2>&1; rc=$?
sort "$OUT"
fail=0; [ $rc -ne 0 ] && fail=1
grep -q -E 'MISSED|FALSE ALARM' "$OUT" && fail=1
rm -f "$LIST" "$OUT"
echo "selftest $PROP: $n variants, $( [ $fail = 0 ] && echo all as expected || echo FAILURES )"
exit $fail
