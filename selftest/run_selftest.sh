#!/bin/bash
# selftest/run_selftest.sh <Cxx>: the checker is tested both ways for one property.
#  - every mutant listed for the property in index.tsv (reverts of the repairs made to the repository,
#    and the confirmed seeded changes under ../seeded/<Cxx>-*) must make the property's check fail;
#  - every benign variant listed for the property must leave it silent.
# Each variant is applied to a scratch copy of /repo under /tmp, which is removed afterwards.
# Exit 0 if all expectations hold, 1 otherwise (a selftest failure is a failure of the check).
set -u
PROP="$1"
HERE="$(cd "$(dirname "$0")/.." && pwd)"
BIN="$HERE/bin/gvcheck"
fail=0; n=0
run_variant() { # <diff> <expect: fire|silent> <label>
  local diff="$1" expect="$2" label="$3"
  local T; T="$(mktemp -d /tmp/gv-selftest.XXXXXX)"
  mkdir -p "$T/repo" "$T/verif"; rsync -a --exclude .git /repo/ "$T/repo/"
  if ! (cd "$T/repo" && git init -q . 2>/dev/null && git apply --whitespace=nowarn "$diff" 2>/dev/null); then
    echo "selftest $PROP: SKIP $label (does not apply to the current tree)"; rm -rf "$T"; return
  fi
  "$BIN" -repo "$T/repo" -verif "$T/verif" -known "$HERE/known_findings.json" -prop "$PROP" -tier quick >"$T/out" 2>&1; local rc=$?
  n=$((n+1))
  if [ "$expect" = fire ] && [ $rc -eq 0 ]; then echo "selftest $PROP: MISSED $label (check stayed silent on a breaking change)"; fail=1
  elif [ "$expect" = silent ] && [ $rc -ne 0 ]; then echo "selftest $PROP: FALSE ALARM on $label"; grep -E '^(VIOLATED|UNDECIDED)' "$T/out" | head -2 | cut -c1-300; fail=1
  else echo "selftest $PROP: ok $label ($expect)"; fi
  rm -rf "$T"
}
while IFS=$'\t' read -r file kind props what; do
  case ",$props," in *",$PROP,"*) ;; *) continue;; esac
  if [ "$kind" = mutant ]; then run_variant "$HERE/selftest/$file" fire "$file: $what"; else run_variant "$HERE/selftest/$file" silent "$file: $what"; fi
done < "$HERE/selftest/index.tsv"
for d in "$HERE"/seeded/"$PROP"-*; do
  [ -f "$d/patch.diff" ] || continue
  # only seeds recorded as detected by their own check are expectations; the others are documented misses
  if python3 -c "import json,sys; sys.exit(0 if json.load(open('$d/meta.json')).get('detected_by_own_property_check') else 1)" 2>/dev/null; then
    run_variant "$d/patch.diff" fire "seeded/$(basename "$d")"
  fi
done
echo "selftest $PROP: $n variants, $( [ $fail = 0 ] && echo all as expected || echo FAILURES )"
exit $fail
